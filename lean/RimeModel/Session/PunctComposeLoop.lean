import RimeModel.Session.PunctComposeGeo
import RimeModel.Session.GeoLoop
/-!
The fuel of `segLoopG` (the segmentation loop of `composeP`) is never what stops the loop: for every round function
that keeps the loop invariant, the input and never leaves the end left of the round's start (`StepOK` — shown for
`segStepP`), `segLoopG` with at least `|input| - current start` fuel returns the same composition for every larger
fuel.  Measure as in `Session/GeoLoop.lean`: a round that continues moves the current start strictly to the right.
-/
namespace RimeModel.Session

/-- what the termination argument needs of one round of the segmentors -/
def StepOK (step : Comp → Comp) : Prop :=
  ∀ c, LoopInv c → LoopInv (step c) ∧ (step c).input = c.input ∧ c.currentStart ≤ endOf (step c).segs

theorem punctProceed_currentStart (m : List (UInt8 × PunctDef)) (c : Comp) :
    (punctProceed m c).1.currentStart = c.currentStart := by
  unfold punctProceed
  dsimp only
  (repeat' split) <;> first | rfl | exact addSegment_currentStart _ _

theorem segStepP_stepOK (cfg : PSegCfg) : StepOK (segStepP cfg) := by
  intro c h
  refine ⟨segStepP_geo cfg h, segStepP_input cfg c, ?_⟩
  have ha := abcProceed_geo cfg.toSegCfg h
  have hp := punctProceed_geo cfg.punct ha.1
  have hcs : (punctProceed cfg.punct (abcProceed cfg.toSegCfg c)).1.currentStart = c.currentStart := by
    rw [punctProceed_currentStart, ha.2]
  unfold segStepP
  dsimp only
  split
  · rw [← hcs]; exact (fallbackProceed_geo hp).2
  · rw [← hcs]; exact currentStart_le_end hp.1

theorem segLoopG_succ (step : Comp → Comp) (caret fuel : Nat) (c : Comp) :
    segLoopG step caret (fuel + 1) c =
      if c.hasFinishedSegmentation then c
      else if c.currentStart = (step c).currentEnd then step c
      else if c.currentStart ≥ caret then step c
      else segLoopG step caret fuel (segNext (step c)) := by
  rw [segLoopG]
  unfold segNext
  dsimp only
  split
  · rfl
  · split
    · rfl
    · split
      · rfl
      · cases (step c).hasFinishedSegmentation <;> rfl

theorem segLoopG_finished (step : Comp → Comp) (caret : Nat) {c : Comp} (h : c.hasFinishedSegmentation = true) :
    ∀ n, segLoopG step caret n c = c
  | 0 => rfl
  | n + 1 => by rw [segLoopG_succ, if_pos h]

theorem segNextG_progress {step : Comp → Comp} (hs : StepOK step) {c : Comp} (h : LoopInv c)
    (hadv : c.currentStart ≠ (step c).currentEnd)
    (hnf : (segNext (step c)).hasFinishedSegmentation = false) :
    c.currentStart < (segNext (step c)).currentStart := by
  have hs' := hs c h
  rw [currentEnd_eq] at hadv
  unfold segNext at hnf ⊢
  split
  · rw [forward_currentStart]
    have := hs'.2.2
    omega
  · rename_i hfin
    rw [if_neg hfin] at hnf
    rw [hnf] at hfin
    simp at hfin

/-- **fuel adequacy**: with at least `input.length - currentStart` fuel, more fuel does not change the result -/
theorem segLoopG_stable {step : Comp → Comp} (hs : StepOK step) (caret : Nat) : ∀ (fuel : Nat) (c : Comp), LoopInv c →
    c.input.length - c.currentStart ≤ fuel → ∀ k, segLoopG step caret (fuel + k) c = segLoopG step caret fuel c
  | 0, c, h, hm => by
    have hfin : c.hasFinishedSegmentation = true := by
      rw [finished_iff]
      have := currentStart_le_end h.1
      omega
    intro k
    rw [segLoopG_finished step caret hfin, segLoopG_finished step caret hfin]
  | fuel + 1, c, h, hm => by
    intro k
    have hrw : fuel + 1 + k = (fuel + k) + 1 := by omega
    rw [hrw, segLoopG_succ, segLoopG_succ]
    by_cases hfin : c.hasFinishedSegmentation = true
    · rw [if_pos hfin, if_pos hfin]
    · rw [if_neg hfin, if_neg hfin]
      by_cases hadv : c.currentStart = (step c).currentEnd
      · rw [if_pos hadv, if_pos hadv]
      · rw [if_neg hadv, if_neg hadv]
        by_cases hcar : c.currentStart ≥ caret
        · rw [if_pos hcar, if_pos hcar]
        · rw [if_neg hcar, if_neg hcar]
          have hn : LoopInv (segNext (step c)) := segNext_geo (hs c h).1
          have hni : (segNext (step c)).input = c.input := by rw [segNext_input]; exact (hs c h).2.1
          by_cases hnf : (segNext (step c)).hasFinishedSegmentation = true
          · rw [segLoopG_finished step caret hnf, segLoopG_finished step caret hnf]
          · have hnf' : (segNext (step c)).hasFinishedSegmentation = false := by
              cases hc : (segNext (step c)).hasFinishedSegmentation
              · rfl
              · exact absurd hc hnf
            have hp := segNextG_progress hs h hadv hnf'
            exact segLoopG_stable hs caret fuel _ hn (by rw [hni]; omega) k

/-- the fuel `|input| + 2` that `calculateSegmentationP` passes is adequate for every composition `composeP` hands to the loop -/
theorem composeP_fuel_adequate (cfg : PSegCfg) (input : Bytes) (caret : Nat) {c : Comp} (h : GeoOK c.segs) (k : Nat) :
    let c2 := resetStage input caret c
    segLoopG (segStepP cfg) caret (c2.input.length + 2 + k) c2 = segLoopG (segStepP cfg) caret (c2.input.length + 2) c2 :=
  segLoopG_stable (segStepP_stepOK cfg) caret _ _ (resetStage_geo h input caret) (by omega) k

end RimeModel.Session
