import RimeModel.Session.PunctCompose
import RimeModel.Session.ComposeOK
import RimeModel.Session.Commit
/-! `composeP` (abc + punct + fallback segmentors, punct translator + oracle, any filter) meets `ComposeSpec` and
`ComposeEmptySpec`: the session theorems (C02, C03) apply to schemas with a punctuator. -/
namespace RimeModel.Session

theorem punctProceed_ok (m : List (UInt8 × PunctDef)) {c : Comp} (h : SegsOK c.segs) :
    SegsOK (punctProceed m c).1.segs := by
  unfold punctProceed
  dsimp only
  (repeat' split) <;> first | exact h | exact addSegment_ok h (selOK_of_menu_none rfl)

theorem punctProceed_input (m : List (UInt8 × PunctDef)) (c : Comp) : (punctProceed m c).1.input = c.input := by
  unfold punctProceed
  dsimp only
  (repeat' split) <;> first | rfl | exact addSegment_input _ _

theorem segStepP_ok (cfg : PSegCfg) {c : Comp} (h : SegsOK c.segs) : SegsOK (segStepP cfg c).segs := by
  unfold segStepP
  have h1 := punctProceed_ok cfg.punct (abcProceed_ok cfg.toSegCfg h)
  dsimp only
  split
  · exact fallbackProceed_ok h1
  · exact h1

theorem segStepP_input (cfg : PSegCfg) (c : Comp) : (segStepP cfg c).input = c.input := by
  unfold segStepP
  dsimp only
  split
  · rw [fallbackProceed_input, punctProceed_input, abcProceed_input]
  · rw [punctProceed_input, abcProceed_input]

theorem segLoopG_ok {step : Comp → Comp} (hstep : ∀ c, SegsOK c.segs → SegsOK (step c).segs) (caret : Nat) :
    ∀ (fuel : Nat) {c : Comp}, SegsOK c.segs → SegsOK (segLoopG step caret fuel c).segs
  | 0, _, h => h
  | fuel + 1, c, h => by
    have h1 := hstep c h
    unfold segLoopG
    split
    · exact h
    · dsimp only
      split
      · exact h1
      · split
        · exact h1
        · split
          · exact segLoopG_ok hstep caret fuel (forward_ok h1)
          · exact segLoopG_ok hstep caret fuel h1

theorem segLoopG_input {step : Comp → Comp} (hstep : ∀ c, (step c).input = c.input) (caret : Nat) :
    ∀ (fuel : Nat) (c : Comp), (segLoopG step caret fuel c).input = c.input
  | 0, _ => rfl
  | fuel + 1, c => by
    have h1 := hstep c
    unfold segLoopG
    dsimp only
    (repeat' split) <;> first
      | rfl
      | exact h1
      | (rw [segLoopG_input hstep caret fuel, forward_input]; exact h1)
      | (rw [segLoopG_input hstep caret fuel]; exact h1)

theorem calculateSegmentationP_ok (cfg : PSegCfg) (caret : Nat) {c : Comp} (h : SegsOK c.segs) :
    SegsOK (calculateSegmentationP cfg caret c).segs :=
  forwardIfSelected_ok (trimUnlessPlaceholder_ok (segLoopG_ok (fun _ hc => segStepP_ok cfg hc) caret _ h))

theorem calculateSegmentationP_input (cfg : PSegCfg) (caret : Nat) (c : Comp) :
    (calculateSegmentationP cfg caret c).input = c.input := by
  unfold calculateSegmentationP forwardIfSelected trimUnlessPlaceholder
  (repeat' split) <;> simp only [forward_input, trim_input, segLoopG_input (segStepP_input cfg)]

theorem translateSegmentsP_ok (cfg : PSegCfg) {c : Comp} (h : SegsOK c.segs) :
    SegsOK (translateSegmentsP cfg c).segs := by
  unfold translateSegmentsP
  intro g hg
  simp only [List.mem_map] at hg
  obtain ⟨g0, hg0, rfl⟩ := hg
  split
  · exact h g0 hg0
  · intro l _ hne
    exact List.length_pos_iff.mpr hne

/-- the Compose of a schema with punctuation components satisfies the hypothesis of the session theorems, for every
punctuation mapping, translation oracle, filter and alphabet configuration -/
theorem composeP_spec (cfg : PSegCfg) : ComposeSpec (composeP cfg) := by
  refine ⟨?_, ?_⟩
  · intro input caret c h
    unfold composeP
    dsimp only
    refine translateSegmentsP_ok cfg (calculateSegmentationP_ok cfg caret ?_)
    split
    · exact reset_ok (reset_ok h _) _
    · exact reset_ok h _
  · intro input caret c
    unfold composeP
    dsimp only
    show (calculateSegmentationP cfg caret _).input.length ≤ input.length
    rw [calculateSegmentationP_input]
    split
    · rw [reset_input]; exact Nat.le_refl _
    · rw [reset_input]; simp only [List.length_take]; omega

/-- recomposing an empty input with no segments yields no segments (what C03(c) needs) -/
theorem composeP_empty_spec (cfg : PSegCfg) : ComposeEmptySpec (composeP cfg) := by
  intro k hk
  unfold composeP
  simp only [List.take_nil, List.length_nil, Nat.lt_irrefl, false_and, if_false]
  have hr : (k.reset []).segs = [] ∧ (k.reset []).input = [] := by
    unfold Comp.reset
    simp [hk, popWhileEndGt]
  generalize k.reset [] = k1 at hr
  obtain ⟨hs, hi⟩ := hr
  have hseg : (segLoopG (segStepP cfg) 0 (k1.input.length + 2) k1) = k1 := by
    rw [hi]; simp only [List.length_nil, Nat.zero_add]
    unfold segLoopG
    have : k1.hasFinishedSegmentation = true := by
      unfold Comp.hasFinishedSegmentation Comp.currentEnd; simp [hs, hi]
    simp [this]
  unfold translateSegmentsP calculateSegmentationP
  rw [hseg]
  unfold trimUnlessPlaceholder forwardIfSelected
  simp [hs]

end RimeModel.Session
