import RimeModel.Session.Context
/-!
`RecognizerPatterns::GetMatch` (gear/recognizer.cc), shared by the `recognizer` processor and the `matcher` segmentor.

The regular expressions are not modelled: a pattern is its search function (`RecPattern.search`: what
`boost::regex_search(active_input, m, pattern)` reports as `m.position()`, `m.length()`).  Everything GetMatch does with
the answer is ported line by line: the active input starts at the confirmed position; a match must reach the end of the
input; it must start at the current END position of the segmentation or at the start of one of its segments (the scan of
the segments stops at the first one that starts further right); the patterns are tried in the order of the std::map and a
pattern whose match fails these tests is skipped, not retried at another position; the first hit is returned even when it is
empty (`found()` is then false and no other pattern is tried).
-/
namespace RimeModel.Session

/-- RecognizerMatch -/
structure RecMatch where
  tag : String
  start : Nat
  stop : Nat

/-- `for (const Segment& seg : segmentation) { if (start < seg.start) break; if (start == seg.start) return …; }` -/
def matchAtSeg (start : Nat) : List Seg → Bool
  | [] => false
  | g :: rest => if start < g.start then false else if start = g.start then true else matchAtSeg start rest

/-- the loop over the patterns; `k` = confirmed position, `j` = current end position -/
def getMatchGo (input : Bytes) (segs : List Seg) (k j : Nat) : List RecPattern → Option RecMatch
  | [] => none
  | p :: rest =>
    match p.search (input.drop k) with
    | none => getMatchGo input segs k j rest
    | some r =>
      let start := k + r.1
      let stop := start + r.2
      if stop ≠ input.length then getMatchGo input segs k j rest
      else if start = j then some ⟨p.tag, start, stop⟩
      else if matchAtSeg start segs then some ⟨p.tag, start, stop⟩
      else getMatchGo input segs k j rest

/-- RecognizerPatterns::GetMatch followed by `match.found()` (`start < end`).
`input.substr(k)` needs `k ≤ |input|` (std::out_of_range otherwise): the confirmed position is within the composition's
input, which is no longer than the raw input (C01). -/
def getMatch (pats : List RecPattern) (input : Bytes) (c : Comp) : Option RecMatch :=
  match getMatchGo input c.segs c.confirmedPos c.currentEnd pats with
  | some m => if m.start < m.stop then some m else none
  | none => none

/-- a hit of GetMatch reaches the end of the input it was asked about -/
theorem getMatchGo_stop (input : Bytes) (segs : List Seg) (k j : Nat) : ∀ (pats : List RecPattern) {m : RecMatch},
    getMatchGo input segs k j pats = some m → m.stop = input.length
  | [], _, h => by simp [getMatchGo] at h
  | p :: rest, m, h => by
    unfold getMatchGo at h
    split at h
    · exact getMatchGo_stop input segs k j rest h
    · dsimp only at h
      split at h
      · exact getMatchGo_stop input segs k j rest h
      · rename_i hstop
        have hstop : _ = input.length := Classical.byContradiction hstop
        split at h
        · simp only [Option.some.injEq] at h; rw [← h]; exact hstop
        · split at h
          · simp only [Option.some.injEq] at h; rw [← h]; exact hstop
          · exact getMatchGo_stop input segs k j rest h

/-- …and starts at the current end position or where one of the segments starts -/
theorem getMatchGo_start (input : Bytes) (segs : List Seg) (k j : Nat) : ∀ (pats : List RecPattern) {m : RecMatch},
    getMatchGo input segs k j pats = some m → m.start = j ∨ matchAtSeg m.start segs = true
  | [], _, h => by simp [getMatchGo] at h
  | p :: rest, m, h => by
    unfold getMatchGo at h
    split at h
    · exact getMatchGo_start input segs k j rest h
    · dsimp only at h
      split at h
      · exact getMatchGo_start input segs k j rest h
      · split at h
        · rename_i hj
          simp only [Option.some.injEq] at h; rw [← h]; exact Or.inl hj
        · split at h
          · rename_i hseg
            simp only [Option.some.injEq] at h; rw [← h]; exact Or.inr hseg
          · exact getMatchGo_start input segs k j rest h

theorem matchAtSeg_mem {start : Nat} : ∀ {l : List Seg}, matchAtSeg start l = true → ∃ g ∈ l, g.start = start
  | [], h => by simp [matchAtSeg] at h
  | g :: rest, h => by
    unfold matchAtSeg at h
    split at h
    · simp at h
    · split at h
      · rename_i he; exact ⟨g, List.mem_cons_self, he.symm⟩
      · obtain ⟨x, hx, hxs⟩ := matchAtSeg_mem h
        exact ⟨x, List.mem_cons_of_mem _ hx, hxs⟩

end RimeModel.Session
