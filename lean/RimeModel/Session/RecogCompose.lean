import RimeModel.Session.PunctCompose
import RimeModel.Session.Recog
/-!
`ConcreteEngine::Compose` for schemas whose segmentor list is any sequence of `ascii_segmentor`, `matcher`,
`abc_segmentor`, `punct_segmentor`, `affix_segmentor@…` (any number, each with its own configuration) and
`fallback_segmentor` (ascii_segmentor.cc, matcher.cc, affix_segmentor.cc; the other three are the definitions of
`Session/Compose.lean` and `Session/PunctCompose.lean`, untouched).  The translation step is the one of `composeP`
(punct translator, then the oracle, then the filters): the translators of the recognizer's and the affix segmentor's tags
are part of the oracle, which sees the segment with its tags.

The affix segmentor is the one segmentor that writes `status` and `prompt` itself (DESIGN §2, L2 "direct pokes"): the
prefix and suffix segments it splits off are born `kGuess` with a prompt and the tag `phony`; TranslateSegments skips
them, so they never carry a menu.
-/
namespace RimeModel.Session

/-! ### Matcher -/

/-- `while (segmentation->GetCurrentStartPosition() > match.start) segmentation->pop_back();` on the reversed list
(head = back); the current start of an empty segmentation is 0, which ends the loop -/
def popWhileStartGt (pos : Nat) : List Seg → List Seg
  | [] => []
  | g :: rest => if g.start > pos then popWhileStartGt pos rest else g :: rest

def matchSeg (m : RecMatch) : Seg := { Seg.mk' m.start m.stop with tags := Tags.insert {} m.tag }

/-- Matcher::Proceed (always returns true: `// terminate this round?  // return false;`) -/
def matcherProceed (pats : List RecPattern) (c : Comp) : Comp :=
  if pats.isEmpty then c
  else match getMatch pats c.input c with
    | none => c
    | some m =>
      let c1 : Comp := { c with segs := (popWhileStartGt m.start c.segs.reverse).reverse }
      (c1.addSegment (matchSeg m)).1

/-! ### AsciiSegmentor -/

def asciiRawSeg (j e : Nat) : Seg := { Seg.mk' j e with tags := { raw := true } }

/-- AsciiSegmentor::Proceed: with `ascii_mode` on, the rest of the input is one `raw` segment and the round ends -/
def asciiProceed (c : Comp) : Comp × Bool :=
  if !c.ascii then (c, true)
  else if c.currentStart < c.input.length then ((c.addSegment (asciiRawSeg c.currentStart c.input.length)).1, false)
  else (c, false)

/-! ### AffixSegmentor -/

def isPrefixOf (p s : Bytes) : Bool := s.take p.length == p
def isSuffixOf (p s : Bytes) : Bool := decide (p.length ≤ s.length) && s.drop (s.length - p.length) == p

/-- the branch `!segmentation->back().HasTag(tag_)`: the remaining part of a partial selection inherits the tag -/
def affixInherit (a : AffixCfg) (c : Comp) : Comp :=
  if c.segs.length ≥ 2 then
    match c.segs.dropLast.getLast? with
    | none => c
    | some prev =>
      if prev.tags.partial_ && prev.tags.has a.tag then
        { c with segs := modLast c.segs (fun g =>
            let t := g.tags.insert a.tag
            { g with tags := if !prev.tags.abc then { t with abc := false } else t }) }
      else c
  else c

def affixPrefixSeg (a : AffixCfg) (j : Nat) : Seg :=
  let t : Tags := Tags.insert {} (a.tag ++ "_prefix")
  { Seg.mk' j (j + a.prefix_.length) with status := .guess, prompt := a.tips, tags := { t with phony := true } }

def affixCodeSeg (a : AffixCfg) (j k : Nat) : Seg :=
  { Seg.mk' j k with tags := a.extraTags.foldl Tags.insert (Tags.insert {} a.tag) }

def affixSuffixSeg (a : AffixCfg) (k : Nat) : Seg :=
  let t : Tags := Tags.insert {} (a.tag ++ "_suffix")
  let pr : Bytes := if a.closingTips = [] then a.tips else a.closingTips
  { Seg.mk' k (k + a.suffix.length) with status := .guess, prompt := pr, tags := { t with phony := true } }

/-- `// has suffix?` … : `k` is the end of the code segment just added -/
def affixSuffix (a : AffixCfg) (k : Nat) (c : Comp) : Comp :=
  let k' := k - a.suffix.length
  let c1 : Comp := match c.segs.getLast? with
    | none => c                                   -- `back()` of an empty segmentation: not reachable (a segment was just added)
    | some b => if k' = b.start then { c with segs := c.segs.dropLast } else { c with segs := setLast c.segs { b with stop := k' } }
  (c1.forward.1.addSegment (affixSuffixSeg a k')).1

/-- `Forward(); AddSegment(g)` -/
def pushSeg (c : Comp) (g : Seg) : Comp := (c.forward.1.addSegment g).1

/-- `// prefix + code`: the last segment `[j, k)` is popped and replaced by the prefix segment and the code segment -/
def affixSplit (a : AffixCfg) (c : Comp) (j k : Nat) : Comp :=
  pushSeg (pushSeg { c with segs := c.segs.dropLast } (affixPrefixSeg a j)) (affixCodeSeg a (j + a.prefix_.length) k)

/-- AffixSegmentor::Proceed -/
def affixProceed (a : AffixCfg) (c : Comp) : Comp × Bool :=
  match c.segs.getLast? with
  | none => (c, true)
  | some b =>
    if !b.tags.has a.tag then (affixInherit a c, true)
    else
      let j := c.currentStart
      let k := c.currentEnd
      let active := substr c.input j (k - j)
      if a.prefix_ = [] || !isPrefixOf a.prefix_ active then (c, true)
      else if active.length = a.prefix_.length then
        -- just the prefix: the segment itself becomes the prefix segment (it keeps its status and gets no `phony`)
        ({ c with segs := setLast c.segs { b with tags := (b.tags.erase a.tag).insert (a.tag ++ "_prefix"), prompt := a.tips } }, true)
      else
        let rest := active.drop a.prefix_.length
        let c3 := affixSplit a c j k
        if a.suffix ≠ [] && isSuffixOf a.suffix rest then (affixSuffix a k c3, false) else (c3, false)

/-! ### the engine -/

/-- one entry of `engine/segmentors` -/
inductive Sgm where
  | ascii | matcher | abc | punct | affix (a : AffixCfg) | fallback
  deriving Repr, DecidableEq, Inhabited

structure RSegCfg extends PSegCfg where
  /-- `recognizer/patterns` as the matcher loads them (std::map order) -/
  patterns : List RecPattern := []
  /-- `engine/segmentors`, in the schema's order -/
  segmentors : List Sgm := []

/-- `segmentor->Proceed(segments)`: the new segmentation and the returned bool -/
def sgmProceed (cfg : RSegCfg) (s : Sgm) (c : Comp) : Comp × Bool :=
  match s with
  | .ascii => asciiProceed c
  | .matcher => (matcherProceed cfg.patterns c, true)
  | .abc => (abcProceed cfg.toSegCfg c, true)
  | .punct => punctProceed cfg.punct c
  | .affix a => affixProceed a c
  | .fallback => (fallbackProceed c, false)

/-- `for (auto& segmentor : segmentors_) if (!segmentor->Proceed(segments)) break;` -/
def runSegmentors (cfg : RSegCfg) : List Sgm → Comp → Comp
  | [], c => c
  | s :: rest, c => if (sgmProceed cfg s c).2 then runSegmentors cfg rest (sgmProceed cfg s c).1 else (sgmProceed cfg s c).1

def segStepR (cfg : RSegCfg) (c : Comp) : Comp := runSegmentors cfg cfg.segmentors c

def calculateSegmentationR (cfg : RSegCfg) (caret : Nat) (c : Comp) : Comp :=
  forwardIfSelected (trimUnlessPlaceholder (segLoopG (segStepR cfg) caret (c.input.length + 2) c))

/-- ConcreteEngine::Compose with the recognizer / affix / ascii segmentors (translation as in `composeP`) -/
def composeR (cfg : RSegCfg) (input : Bytes) (caret : Nat) (c : Comp) : Comp :=
  let active := input.take caret
  let c1 := c.reset active
  let c2 := if caret < input.length ∧ caret = c1.confirmedPos then c1.reset input else c1
  translateSegmentsP cfg.toPSegCfg (calculateSegmentationR cfg caret c2)

end RimeModel.Session
