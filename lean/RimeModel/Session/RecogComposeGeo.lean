import RimeModel.Session.RecogComposeOK
import RimeModel.Session.PunctComposeLoop
/-!
`composeR` preserves the geometric invariant (`composeR_geo_spec`) and its segmentation loop does not depend on the fuel
(`composeR_fuel_adequate`), for every list of segmentors, every pattern search function and every affix configuration.

Each segmentor keeps `LoopInv` (contiguous segments from 0 that end within the input) and never moves the END of the
segmentation to the left (`SgmGeoOK`).  The second half is what the termination measure needs, and it is where the matcher
needs an argument: it pops segments, but only when `GetMatch` has found the match's start among the segment starts — then
the segment it adds is accepted and reaches the end of the input.  The affix segmentor re-tiles the last segment
`[j, k)` into prefix / code / suffix pieces that end at `k` again.
-/
namespace RimeModel.Session

/-- a segmentor keeps the loop invariant and does not move the end of the segmentation to the left -/
def SgmGeoOK (f : Comp → Comp × Bool) : Prop :=
  ∀ c, LoopInv c → LoopInv (f c).1 ∧ endOf c.segs ≤ endOf (f c).1.segs

/-! ### AddSegment, Forward + AddSegment -/

theorem addSegment_endOf_ge (c : Comp) (g : Seg) : endOf c.segs ≤ endOf (c.addSegment g).1.segs := by
  unfold Comp.addSegment
  split
  · exact Nat.le_refl _
  · split
    · rename_i hnone
      have : endOf c.segs = 0 := by unfold endOf; rw [hnone]
      rw [this]; exact Nat.zero_le _
    · rename_i last hlast
      split
      · exact Nat.le_refl _
      · split
        · rename_i hlt
          show endOf c.segs ≤ endOf (setLast c.segs g)
          rw [setLast_of_getLast? hlast, endOf_snoc, endOf_of_getLast? hlast]; omega
        · show endOf c.segs ≤ endOf (setLast c.segs _)
          rw [setLast_of_getLast? hlast, endOf_snoc, endOf_of_getLast? hlast]; exact Nat.le_refl _

/-- a segment that starts at the current start and ends at the end of the input becomes (or merges into) the last one -/
theorem addSegment_endOf_full {c : Comp} (h : LoopInv c) {g : Seg} (hs : g.start = c.currentStart)
    (he : g.stop = c.input.length) : endOf (c.addSegment g).1.segs = c.input.length := by
  unfold Comp.addSegment
  split
  · rename_i hne; exact absurd hs hne
  · split
    · show endOf [g] = _
      rw [← he]; exact endOf_snoc [] g
    · rename_i last hlast
      have hle : last.stop ≤ c.input.length := by rw [← endOf_of_getLast? hlast]; exact h.2
      split
      · omega
      · split
        · show endOf (setLast c.segs g) = _
          rw [setLast_of_getLast? hlast, endOf_snoc]; exact he
        · show endOf (setLast c.segs _) = _
          rw [setLast_of_getLast? hlast, endOf_snoc]
          show last.stop = _
          omega

/-- `Forward(); AddSegment(g)` of a segment that starts where the segmentation ends and is not empty: it becomes the last -/
theorem pushSeg_geo {c : Comp} (h : GeoOK c.segs) {g : Seg} (hg : SegGeo g) (hs : g.start = endOf c.segs)
    (hlt : endOf c.segs < g.stop) : ∃ l', (pushSeg c g).segs = l' ++ [g] ∧ GeoOK (l' ++ [g]) := by
  have hf := forward_geo h
  have hcs := forward_currentStart c
  exact addSegment_longer hf.1 hg (by rw [hcs]; exact hs) (by rw [hf.2]; exact hlt)

/-! ### Matcher -/

theorem RGeo.seg {r : List Seg} (h : RGeo r) {g : Seg} (hg : g ∈ r) : SegGeo g :=
  ((rgeo_iff_geoOK r).mp h).seg (List.mem_reverse.mpr hg)

theorem popWhileStartGt_rgeo (pos : Nat) : ∀ {r : List Seg}, RGeo r →
    RGeo (popWhileStartGt pos r) ∧ rend (popWhileStartGt pos r) ≤ rend r
  | [], h => ⟨h, Nat.le_refl _⟩
  | g :: rest, h => by
    unfold popWhileStartGt
    split
    · have ih := popWhileStartGt_rgeo pos h.tail
      refine ⟨ih.1, Nat.le_trans ih.2 ?_⟩
      show rend rest ≤ g.stop
      have h1 := h.1
      have h2 := h.2.1.1
      omega
    · exact ⟨h, Nat.le_refl _⟩

/-- when some segment starts at `pos`, the popping stops at a segment that starts at `pos` -/
theorem popWhileStartGt_found (pos : Nat) : ∀ {r : List Seg}, RGeo r → (∃ g ∈ r, g.start = pos) →
    ∃ b rest, popWhileStartGt pos r = b :: rest ∧ b.start = pos
  | [], _, ⟨g, hg, _⟩ => by simp at hg
  | a :: rest, h, ⟨g, hg, hgs⟩ => by
    unfold popWhileStartGt
    split
    · rename_i hgt
      have hmem : g ∈ rest := by
        rcases List.mem_cons.mp hg with heq | h'
        · rw [heq] at hgs; omega
        · exact h'
      exact popWhileStartGt_found pos h.tail ⟨g, hmem, hgs⟩
    · rename_i hle
      refine ⟨a, rest, rfl, ?_⟩
      rcases List.mem_cons.mp hg with heq | h'
      · rw [← heq]; exact hgs
      · have h1 := h.tail.stop_le_rend g h'
        have h2 := h.1
        have h3 := (h.tail.seg h').1
        omega

theorem popWhileStartGt_id (pos : Nat) : ∀ {r : List Seg}, (∀ b, r.head? = some b → b.start ≤ pos) →
    popWhileStartGt pos r = r
  | [], _ => rfl
  | a :: rest, h => by
    unfold popWhileStartGt
    have := h a rfl
    rw [if_neg (by omega)]

theorem segGeo_matchSeg {m : RecMatch} (h : m.start < m.stop) : SegGeo (matchSeg m) :=
  ⟨by show m.start ≤ m.stop; omega, candGeo_of_menu_none rfl⟩

theorem matcherProceed_geo (pats : List RecPattern) : SgmGeoOK (fun c => (matcherProceed pats c, true)) := by
  intro c h
  show LoopInv (matcherProceed pats c) ∧ endOf c.segs ≤ endOf (matcherProceed pats c).segs
  unfold matcherProceed
  split
  · exact ⟨h, Nat.le_refl _⟩
  · split
    · exact ⟨h, Nat.le_refl _⟩
    · rename_i m hm
      -- what GetMatch guarantees
      have hfacts : m.start < m.stop ∧ m.stop = c.input.length ∧
          (m.start = c.currentEnd ∨ matchAtSeg m.start c.segs = true) := by
        unfold getMatch at hm
        split at hm
        · rename_i m0 hgo
          split at hm
          · rename_i hlt
            simp only [Option.some.injEq] at hm
            subst hm
            exact ⟨hlt, getMatchGo_stop _ _ _ _ _ hgo, getMatchGo_start _ _ _ _ _ hgo⟩
          · simp at hm
        · simp at hm
      obtain ⟨hlt, hstop, hstart⟩ := hfacts
      have hR : RGeo c.segs.reverse := (geoOK_iff_rgeo _).mp h.1
      have hp := popWhileStartGt_rgeo m.start hR
      have hc1 : LoopInv ({ c with segs := (popWhileStartGt m.start c.segs.reverse).reverse } : Comp) := by
        refine ⟨(rgeo_iff_geoOK _).mp hp.1, ?_⟩
        show endOf (popWhileStartGt m.start c.segs.reverse).reverse ≤ c.input.length
        rw [endOf_reverse]
        have h1 := hp.2
        rw [rend_reverse] at h1
        have h2 := h.2
        omega
      have hsg := segGeo_matchSeg hlt
      refine ⟨addSegment_loopInv hc1 hsg (by show m.stop ≤ c.input.length; omega), ?_⟩
      by_cases hcase : m.start < c.currentStart
      · -- segments are popped: the match starts where one of the segments starts
        have hseg : ∃ g ∈ c.segs.reverse, g.start = m.start := by
          rcases hstart with hj | hseg
          · have := currentStart_le_end h.1
            rw [currentEnd_eq] at hj
            omega
          · obtain ⟨g, hg, hgs⟩ := matchAtSeg_mem hseg
            exact ⟨g, List.mem_reverse.mpr hg, hgs⟩
        obtain ⟨b, rest, hpop, hbs⟩ := popWhileStartGt_found m.start hR hseg
        have hcs : ({ c with segs := (popWhileStartGt m.start c.segs.reverse).reverse } : Comp).currentStart = m.start := by
          rw [hpop, List.reverse_cons, currentStart_snoc]; exact hbs
        have hfull := addSegment_endOf_full hc1 (g := matchSeg m) (by rw [hcs]; rfl) (by show m.stop = c.input.length; exact hstop)
        rw [hfull]
        exact h.2
      · -- nothing is popped
        have hid : popWhileStartGt m.start c.segs.reverse = c.segs.reverse := by
          apply popWhileStartGt_id
          intro b hb
          rw [List.head?_reverse] at hb
          have := currentStart_of_getLast? hb
          omega
        rw [hid, List.reverse_reverse]
        exact addSegment_endOf_ge c _

/-! ### AsciiSegmentor -/

theorem asciiProceed_geo : SgmGeoOK asciiProceed := by
  intro c h
  unfold asciiProceed
  split
  · exact ⟨h, Nat.le_refl _⟩
  · split
    · rename_i hlt
      refine ⟨addSegment_loopInv h ⟨?_, candGeo_of_menu_none rfl⟩ (Nat.le_refl _), addSegment_endOf_ge _ _⟩
      show c.currentStart ≤ c.input.length
      omega
    · exact ⟨h, Nat.le_refl _⟩

/-! ### abc, punct, fallback: the end never moves left -/

theorem abcProceed_endOf_ge (cfg : SegCfg) (c : Comp) : endOf c.segs ≤ endOf (abcProceed cfg c).segs := by
  unfold abcProceed
  dsimp only
  split
  · exact addSegment_endOf_ge _ _
  · exact Nat.le_refl _

theorem punctProceed_endOf_ge (m : List (UInt8 × PunctDef)) (c : Comp) : endOf c.segs ≤ endOf (punctProceed m c).1.segs := by
  unfold punctProceed
  dsimp only
  (repeat' split) <;> first | exact Nat.le_refl _ | exact addSegment_endOf_ge _ _

theorem endOf_eq_currentStart {c : Comp} (h : GeoOK c.segs) (h0 : c.currentSegLen = 0) : endOf c.segs = c.currentStart := by
  rcases hl : c.segs.getLast? with _ | b
  · unfold endOf Comp.currentStart; rw [hl]
  · rw [endOf_of_getLast? hl, currentStart_of_getLast? hl]
    unfold Comp.currentSegLen at h0
    rw [hl] at h0
    have := (h.getLast hl).1
    simp only at h0
    omega

theorem fallbackProceed_endOf_ge {c : Comp} (h : LoopInv c) : endOf c.segs ≤ endOf (fallbackProceed c).segs := by
  by_cases h0 : c.currentSegLen > 0
  · unfold fallbackProceed
    rw [if_pos h0]
    exact Nat.le_refl _
  · rw [endOf_eq_currentStart h.1 (by omega)]
    exact (fallbackProceed_geo h).2

/-! ### AffixSegmentor -/

theorem endOf_modLast_same {l : List Seg} {f : Seg → Seg} (hf : ∀ g, (f g).stop = g.stop) : endOf (modLast l f) = endOf l := by
  rcases snoc_cases l with rfl | ⟨l', b, rfl⟩
  · rfl
  · rw [modLast_concat, endOf_snoc, endOf_snoc]; exact hf b

theorem affixInherit_geo (a : AffixCfg) {c : Comp} (h : LoopInv c) :
    LoopInv (affixInherit a c) ∧ endOf c.segs ≤ endOf (affixInherit a c).segs := by
  unfold affixInherit
  split
  · split
    · exact ⟨h, Nat.le_refl _⟩
    · split
      · refine ⟨⟨geoOK_modLast h.1 (fun g _ hg => ⟨hg.same rfl rfl rfl, rfl⟩), ?_⟩, ?_⟩
        · show endOf (modLast c.segs _) ≤ c.input.length
          exact Nat.le_trans (Nat.le_of_eq (endOf_modLast_same (fun _ => rfl))) h.2
        · show endOf c.segs ≤ endOf (modLast c.segs _)
          exact Nat.le_of_eq (Eq.symm (a := endOf (modLast c.segs _)) (endOf_modLast_same (fun _ => rfl)))
      · exact ⟨h, Nat.le_refl _⟩
  · exact ⟨h, Nat.le_refl _⟩

theorem isPrefixOf_length {p s : Bytes} (h : isPrefixOf p s = true) : p.length ≤ s.length := by
  unfold isPrefixOf at h
  have h1 : s.take p.length = p := by simpa using h
  have h2 := congrArg List.length h1
  simp only [List.length_take] at h2
  omega

theorem isSuffixOf_length {p s : Bytes} (h : isSuffixOf p s = true) : p.length ≤ s.length := by
  unfold isSuffixOf at h
  simp only [Bool.and_eq_true, decide_eq_true_eq] at h
  exact h.1

/-- the prefix + code split of the last segment `[j, k)`: the code segment is the new last segment and ends at `k` -/
theorem affixSplit_geo (a : AffixCfg) {c : Comp} {b : Seg} (h : LoopInv c) (hb : c.segs.getLast? = some b)
    (hp0 : 0 < a.prefix_.length) (hpk : b.start + a.prefix_.length < b.stop) :
    ∃ l', (affixSplit a c b.start b.stop).segs = l' ++ [affixCodeSeg a (b.start + a.prefix_.length) b.stop] ∧
      GeoOK (l' ++ [affixCodeSeg a (b.start + a.prefix_.length) b.stop]) := by
  have hsn := eq_snoc_of_getLast? hb
  have hg0 : GeoOK c.segs.dropLast := h.1.dropLast
  have he0 : endOf c.segs.dropLast = b.start := by
    have h' := h.1
    rw [hsn] at h'
    exact h'.last_start.symm
  have hpre : SegGeo (affixPrefixSeg a b.start) := ⟨by show b.start ≤ b.start + a.prefix_.length; omega, candGeo_of_menu_none rfl⟩
  obtain ⟨l1, hl1, hg1⟩ := pushSeg_geo (c := { c with segs := c.segs.dropLast }) hg0 hpre
    (by show b.start = endOf c.segs.dropLast; rw [he0]) (by show endOf c.segs.dropLast < b.start + a.prefix_.length; rw [he0]; omega)
  have he1 : endOf (pushSeg { c with segs := c.segs.dropLast } (affixPrefixSeg a b.start)).segs = b.start + a.prefix_.length := by
    rw [hl1, endOf_snoc]; rfl
  have hcode : SegGeo (affixCodeSeg a (b.start + a.prefix_.length) b.stop) :=
    ⟨by show b.start + a.prefix_.length ≤ b.stop; omega, candGeo_of_menu_none rfl⟩
  unfold affixSplit
  exact pushSeg_geo (by rw [hl1]; exact hg1) hcode (by rw [he1]; rfl) (by rw [he1]; show _ < b.stop; omega)

/-- the suffix split: the code segment `[s, k)` (last) is cut at `k - |suffix|` (or dropped when that leaves it empty) and
the suffix segment is pushed: the segmentation ends at `k` again -/
theorem affixSuffix_geo (a : AffixCfg) {c : Comp} {l' : List Seg} {g : Seg} (hseg : c.segs = l' ++ [g]) (hgeo : GeoOK (l' ++ [g]))
    (hmenu : g.menu = none) (hs0 : 0 < a.suffix.length) (hsk : g.start + a.suffix.length ≤ g.stop) :
    GeoOK (affixSuffix a g.stop c).segs ∧ endOf (affixSuffix a g.stop c).segs = g.stop := by
  have hlast : c.segs.getLast? = some g := by rw [hseg]; exact List.getLast?_concat
  have hsuf : SegGeo (affixSuffixSeg a (g.stop - a.suffix.length)) :=
    ⟨by show g.stop - a.suffix.length ≤ g.stop - a.suffix.length + a.suffix.length; omega, candGeo_of_menu_none rfl⟩
  have hfin : ∀ c1 : Comp, GeoOK c1.segs → endOf c1.segs = g.stop - a.suffix.length →
      GeoOK (pushSeg c1 (affixSuffixSeg a (g.stop - a.suffix.length))).segs ∧
        endOf (pushSeg c1 (affixSuffixSeg a (g.stop - a.suffix.length))).segs = g.stop := by
    intro c1 hg1 he1
    obtain ⟨l2, hl2, hg2⟩ := pushSeg_geo hg1 hsuf (by rw [he1]; rfl)
      (by rw [he1]; show _ < g.stop - a.suffix.length + a.suffix.length; omega)
    rw [hl2]
    exact ⟨hg2, by rw [endOf_snoc]; show g.stop - a.suffix.length + a.suffix.length = g.stop; omega⟩
  unfold affixSuffix
  dsimp only
  rw [hlast]
  dsimp only
  split
  · rename_i heq
    refine hfin { c with segs := c.segs.dropLast } ?_ ?_
    · show GeoOK c.segs.dropLast
      rw [hseg, List.dropLast_concat]; exact hgeo.init
    · show endOf c.segs.dropLast = _
      rw [hseg, List.dropLast_concat, ← hgeo.last_start]; exact heq.symm
  · rename_i hne
    refine hfin { c with segs := setLast c.segs { g with stop := g.stop - a.suffix.length } } ?_ ?_
    · show GeoOK (setLast c.segs _)
      rw [hseg, setLast_concat]
      refine geoOK_replace_last hgeo ⟨?_, candGeo_of_menu_none hmenu⟩ rfl
      show g.start ≤ g.stop - a.suffix.length
      omega
    · show endOf (setLast c.segs _) = _
      rw [hseg, setLast_concat, endOf_snoc]

theorem substr_length {s : Bytes} {j k : Nat} (hk : k ≤ s.length) : (substr s j (k - j)).length = k - j := by
  unfold substr
  simp only [List.length_take, List.length_drop]
  omega

theorem affixProceed_geo (a : AffixCfg) : SgmGeoOK (affixProceed a) := by
  intro c h
  unfold affixProceed
  split
  · exact ⟨h, Nat.le_refl _⟩
  · rename_i b hb
    have hj : c.currentStart = b.start := currentStart_of_getLast? hb
    have hk : c.currentEnd = b.stop := by rw [currentEnd_eq]; exact endOf_of_getLast? hb
    have hke : endOf c.segs = b.stop := endOf_of_getLast? hb
    have hkle : b.stop ≤ c.input.length := by rw [← hke]; exact h.2
    dsimp only
    split
    · exact affixInherit_geo a h
    · split
      · exact ⟨h, Nat.le_refl _⟩
      · rename_i hpref
        have hpref' : a.prefix_ ≠ [] ∧ isPrefixOf a.prefix_ (substr c.input c.currentStart (c.currentEnd - c.currentStart)) = true := by
          simp only [Bool.or_eq_true, decide_eq_true_eq, Bool.not_eq_true', not_or, Bool.not_eq_false] at hpref
          exact hpref
        have hp0 : 0 < a.prefix_.length := List.length_pos_iff.mpr hpref'.1
        have hplen := isPrefixOf_length hpref'.2
        rw [hj, hk, substr_length hkle] at hplen
        split
        · -- just the prefix
          refine ⟨⟨geoOK_setLast h.1 hb ((h.1.getLast hb).same rfl rfl rfl) rfl, ?_⟩, ?_⟩
          · show endOf (setLast c.segs _) ≤ c.input.length
            rw [setLast_of_getLast? hb, endOf_snoc]; exact hkle
          · show endOf c.segs ≤ endOf (setLast c.segs _)
            rw [setLast_of_getLast? hb, endOf_snoc, hke]; exact Nat.le_refl _
        · rename_i hne
          rw [hj, hk, substr_length hkle] at hne
          have hpk : b.start + a.prefix_.length < b.stop := by omega
          rw [hj, hk]
          obtain ⟨l', hl', hg'⟩ := affixSplit_geo a h hb hp0 hpk
          split
          · rename_i hsuf
            have hsuf' : a.suffix ≠ [] ∧ isSuffixOf a.suffix ((substr c.input b.start (b.stop - b.start)).drop a.prefix_.length) = true := by
              simp only [Bool.and_eq_true, decide_eq_true_eq, ne_eq] at hsuf
              exact hsuf
            have hs0 : 0 < a.suffix.length := List.length_pos_iff.mpr hsuf'.1
            have hslen := isSuffixOf_length hsuf'.2
            rw [List.length_drop, substr_length hkle] at hslen
            have := affixSuffix_geo a (c := affixSplit a c b.start b.stop) hl' hg' rfl hs0
              (by show b.start + a.prefix_.length + a.suffix.length ≤ b.stop; omega)
            refine ⟨⟨this.1, ?_⟩, ?_⟩
            · rw [affixSuffix_input, affixSplit_input]
              show endOf (affixSuffix a b.stop _).segs ≤ _
              have h2 : endOf (affixSuffix a b.stop (affixSplit a c b.start b.stop)).segs = b.stop := this.2
              rw [h2]; exact hkle
            · show endOf c.segs ≤ endOf (affixSuffix a b.stop _).segs
              have h2 : endOf (affixSuffix a b.stop (affixSplit a c b.start b.stop)).segs = b.stop := this.2
              rw [h2, hke]; exact Nat.le_refl _
          · have he3 : endOf (affixSplit a c b.start b.stop).segs = b.stop := by rw [hl', endOf_snoc]; rfl
            refine ⟨⟨by rw [hl']; exact hg', ?_⟩, ?_⟩
            · show endOf (affixSplit a c b.start b.stop).segs ≤ (affixSplit a c b.start b.stop).input.length
              rw [he3, affixSplit_input]; exact hkle
            · show endOf c.segs ≤ endOf (affixSplit a c b.start b.stop).segs
              rw [he3, hke]; exact Nat.le_refl _

/-! ### the round, the loop, Compose -/

theorem sgmProceed_geo (cfg : RSegCfg) (s : Sgm) : SgmGeoOK (sgmProceed cfg s) := by
  cases s
  · exact asciiProceed_geo
  · exact matcherProceed_geo _
  · intro c h
    exact ⟨(abcProceed_geo cfg.toSegCfg h).1, abcProceed_endOf_ge _ _⟩
  · intro c h
    exact ⟨punctProceed_geo cfg.punct h, punctProceed_endOf_ge _ _⟩
  · exact affixProceed_geo _
  · intro c h
    exact ⟨(fallbackProceed_geo h).1, fallbackProceed_endOf_ge h⟩

theorem runSegmentors_geo (cfg : RSegCfg) : ∀ (l : List Sgm) {c : Comp}, LoopInv c →
    LoopInv (runSegmentors cfg l c) ∧ endOf c.segs ≤ endOf (runSegmentors cfg l c).segs
  | [], _, h => ⟨h, Nat.le_refl _⟩
  | s :: rest, c, h => by
    have h1 := sgmProceed_geo cfg s c h
    unfold runSegmentors
    split
    · have h2 := runSegmentors_geo cfg rest h1.1
      exact ⟨h2.1, Nat.le_trans h1.2 h2.2⟩
    · exact h1

theorem segStepR_stepOK (cfg : RSegCfg) : StepOK (segStepR cfg) := by
  intro c h
  have hr := runSegmentors_geo cfg cfg.segmentors h
  exact ⟨hr.1, segStepR_input cfg c, Nat.le_trans (currentStart_le_end h.1) hr.2⟩

theorem calculateSegmentationR_geo (cfg : RSegCfg) (caret : Nat) {c : Comp} (h : LoopInv c) :
    LoopInv (calculateSegmentationR cfg caret c) :=
  forwardIfSelected_geo (trimUnlessPlaceholder_geo (segLoopG_geo (fun c hc => (segStepR_stepOK cfg c hc).1) caret _ h))

theorem composeR_eq (cfg : RSegCfg) (input : Bytes) (caret : Nat) (c : Comp) :
    composeR cfg input caret c =
      translateSegmentsP cfg.toPSegCfg (calculateSegmentationR cfg caret (resetStage input caret c)) := rfl

theorem composeR_loopInv (cfg : RSegCfg) (htr : TranslateGeo cfg.toSegCfg) (hf : FilterSub cfg.filter) {c : Comp}
    (h : GeoOK c.segs) (input : Bytes) (caret : Nat) : LoopInv (composeR cfg input caret c) := by
  rw [composeR_eq]
  exact translateSegmentsP_geo cfg.toPSegCfg htr hf (calculateSegmentationR_geo cfg caret (resetStage_geo h input caret))

/-- the Compose with the recognizer family satisfies the hypothesis of the geometric session theorems, for every list of
segmentors, pattern search functions and affix configurations, every oracle whose candidates end after their segment's
start and every filter that only removes or reorders candidates -/
theorem composeR_geo_spec (cfg : RSegCfg) (htr : TranslateGeo cfg.toSegCfg) (hf : FilterSub cfg.filter) :
    ComposeGeoSpec (composeR cfg) :=
  ⟨fun input caret _ h => (composeR_loopInv cfg htr hf h input caret).1,
   fun input caret _ h => (composeR_loopInv cfg htr hf h input caret).bounded⟩

/-- the fuel `|input| + 2` that `calculateSegmentationR` passes is adequate for every composition `composeR` hands to the
loop: more fuel gives the same segmentation -/
theorem composeR_fuel_adequate (cfg : RSegCfg) (input : Bytes) (caret : Nat) {c : Comp} (h : GeoOK c.segs) (k : Nat) :
    let c2 := resetStage input caret c
    segLoopG (segStepR cfg) caret (c2.input.length + 2 + k) c2 = segLoopG (segStepR cfg) caret (c2.input.length + 2) c2 :=
  segLoopG_stable (segStepR_stepOK cfg) caret _ _ (resetStage_geo h input caret) (by omega) k

/-! ### the partial operations of the family: `input.substr(k)` of GetMatch, `substr(j, k - j)` of the affix segmentor -/

theorem confirmedFold_cases (l : List Seg) : ∀ k : Nat,
    l.foldl (fun k g => if g.status.rank ≥ Status.selected.rank then g.stop else k) k = k ∨
      ∃ g ∈ l, l.foldl (fun k g => if g.status.rank ≥ Status.selected.rank then g.stop else k) k = g.stop := by
  induction l with
  | nil => intro k; exact Or.inl rfl
  | cons a rest ih =>
    intro k
    simp only [List.foldl_cons]
    rcases ih (if a.status.rank ≥ Status.selected.rank then a.stop else k) with h | ⟨g, hg, h⟩
    · rw [h]
      split
      · exact Or.inr ⟨a, List.mem_cons_self, rfl⟩
      · exact Or.inl rfl
    · exact Or.inr ⟨g, List.mem_cons_of_mem _ hg, h⟩

/-- the confirmed position lies within the segmentation -/
theorem confirmedPos_le_end {c : Comp} (h : GeoOK c.segs) : c.confirmedPos ≤ endOf c.segs := by
  unfold Comp.confirmedPos
  rcases confirmedFold_cases c.segs 0 with h0 | ⟨g, hg, h1⟩
  · rw [h0]; exact Nat.zero_le _
  · rw [h1]; exact h.stop_le_endOf g hg

end RimeModel.Session
