import RimeModel.Session.RecogCompose
import RimeModel.Session.PunctComposeOK
/-! `composeR` (any list of ascii / matcher / abc / punct / affix / fallback segmentors, any search functions for the
patterns, any affix configurations, punct translator + oracle + filter) meets `ComposeSpec` and `ComposeEmptySpec`: the
session theorems (C02, C03) apply to schemas with the recognizer family. -/
namespace RimeModel.Session

/-! ### selected indices never dangle -/

theorem popWhileStartGt_sub (pos : Nat) : ∀ (l : List Seg), ∀ g ∈ popWhileStartGt pos l, g ∈ l
  | [], g, h => by simp [popWhileStartGt] at h
  | a :: rest, g, h => by
    unfold popWhileStartGt at h
    split at h
    · exact List.mem_cons_of_mem _ (popWhileStartGt_sub pos rest g h)
    · exact h

theorem popWhileStartGt_ok (pos : Nat) {l : List Seg} (h : SegsOK l) : SegsOK (popWhileStartGt pos l.reverse).reverse :=
  fun g hg => h g (List.mem_reverse.mp (popWhileStartGt_sub pos _ g (List.mem_reverse.mp hg)))

theorem matcherProceed_ok (pats : List RecPattern) {c : Comp} (h : SegsOK c.segs) : SegsOK (matcherProceed pats c).segs := by
  unfold matcherProceed
  split
  · exact h
  · split
    · exact h
    · exact addSegment_ok (c := { c with segs := _ }) (popWhileStartGt_ok _ h) (selOK_of_menu_none rfl)

theorem matcherProceed_input (pats : List RecPattern) (c : Comp) : (matcherProceed pats c).input = c.input := by
  unfold matcherProceed
  split
  · rfl
  · split
    · rfl
    · exact addSegment_input _ _

theorem asciiProceed_ok {c : Comp} (h : SegsOK c.segs) : SegsOK (asciiProceed c).1.segs := by
  unfold asciiProceed
  (repeat' split) <;> first | exact h | exact addSegment_ok h (selOK_of_menu_none rfl)

theorem asciiProceed_input (c : Comp) : (asciiProceed c).1.input = c.input := by
  unfold asciiProceed
  (repeat' split) <;> first | rfl | exact addSegment_input _ _

theorem affixInherit_ok (a : AffixCfg) {c : Comp} (h : SegsOK c.segs) : SegsOK (affixInherit a c).segs := by
  unfold affixInherit
  (repeat' split) <;> first
    | exact h
    | exact segsOK_modLast h (fun g hg l hl hne => hg l hl hne)

theorem affixInherit_input (a : AffixCfg) (c : Comp) : (affixInherit a c).input = c.input := by
  unfold affixInherit
  (repeat' split) <;> rfl

theorem affixSuffix_ok (a : AffixCfg) (k : Nat) {c : Comp} (h : SegsOK c.segs) : SegsOK (affixSuffix a k c).segs := by
  unfold affixSuffix
  dsimp only
  refine addSegment_ok (forward_ok ?_) (selOK_of_menu_none rfl)
  split
  · exact h
  · rename_i b hb
    split
    · exact h.dropLast
    · exact segsOK_setLast h (fun l hl hne => h.getLast hb l hl hne)

theorem affixSuffix_input (a : AffixCfg) (k : Nat) (c : Comp) : (affixSuffix a k c).input = c.input := by
  unfold affixSuffix
  dsimp only
  rw [addSegment_input, forward_input]
  (repeat' split) <;> rfl

theorem pushSeg_ok {c : Comp} (h : SegsOK c.segs) {g : Seg} (hg : g.menu = none) : SegsOK (pushSeg c g).segs :=
  addSegment_ok (forward_ok h) (selOK_of_menu_none hg)

theorem pushSeg_input (c : Comp) (g : Seg) : (pushSeg c g).input = c.input := by
  unfold pushSeg; rw [addSegment_input, forward_input]

theorem affixSplit_ok (a : AffixCfg) (j k : Nat) {c : Comp} (h : SegsOK c.segs) : SegsOK (affixSplit a c j k).segs :=
  pushSeg_ok (pushSeg_ok (c := { c with segs := c.segs.dropLast }) h.dropLast rfl) rfl

theorem affixSplit_input (a : AffixCfg) (j k : Nat) (c : Comp) : (affixSplit a c j k).input = c.input := by
  unfold affixSplit; rw [pushSeg_input, pushSeg_input]

theorem affixProceed_ok (a : AffixCfg) {c : Comp} (h : SegsOK c.segs) : SegsOK (affixProceed a c).1.segs := by
  unfold affixProceed
  split
  · exact h
  · rename_i b hb
    dsimp only
    (repeat' split) <;> first
      | exact h
      | exact affixInherit_ok a h
      | exact segsOK_setLast h (fun l hl hne => h.getLast hb l hl hne)
      | exact affixSuffix_ok a _ (affixSplit_ok a _ _ h)
      | exact affixSplit_ok a _ _ h

theorem affixProceed_input (a : AffixCfg) (c : Comp) : (affixProceed a c).1.input = c.input := by
  unfold affixProceed
  split
  · rfl
  · dsimp only
    (repeat' split) <;> first
      | rfl
      | exact affixInherit_input a c
      | (rw [affixSuffix_input, affixSplit_input])
      | exact affixSplit_input a _ _ c

theorem sgmProceed_ok (cfg : RSegCfg) (s : Sgm) {c : Comp} (h : SegsOK c.segs) : SegsOK (sgmProceed cfg s c).1.segs := by
  unfold sgmProceed
  cases s <;> dsimp only
  · exact asciiProceed_ok h
  · exact matcherProceed_ok _ h
  · exact abcProceed_ok _ h
  · exact punctProceed_ok _ h
  · exact affixProceed_ok _ h
  · exact fallbackProceed_ok h

theorem sgmProceed_input (cfg : RSegCfg) (s : Sgm) (c : Comp) : (sgmProceed cfg s c).1.input = c.input := by
  unfold sgmProceed
  cases s <;> dsimp only
  · exact asciiProceed_input c
  · exact matcherProceed_input _ c
  · exact abcProceed_input _ c
  · exact punctProceed_input _ c
  · exact affixProceed_input _ c
  · exact fallbackProceed_input c

theorem runSegmentors_ok (cfg : RSegCfg) : ∀ (l : List Sgm) {c : Comp}, SegsOK c.segs → SegsOK (runSegmentors cfg l c).segs
  | [], _, h => h
  | s :: rest, c, h => by
    unfold runSegmentors
    split
    · exact runSegmentors_ok cfg rest (sgmProceed_ok cfg s h)
    · exact sgmProceed_ok cfg s h

theorem runSegmentors_input (cfg : RSegCfg) : ∀ (l : List Sgm) (c : Comp), (runSegmentors cfg l c).input = c.input
  | [], _ => rfl
  | s :: rest, c => by
    unfold runSegmentors
    split
    · rw [runSegmentors_input cfg rest, sgmProceed_input]
    · exact sgmProceed_input cfg s c

theorem segStepR_ok (cfg : RSegCfg) {c : Comp} (h : SegsOK c.segs) : SegsOK (segStepR cfg c).segs := runSegmentors_ok cfg _ h

theorem segStepR_input (cfg : RSegCfg) (c : Comp) : (segStepR cfg c).input = c.input := runSegmentors_input cfg _ c

theorem calculateSegmentationR_ok (cfg : RSegCfg) (caret : Nat) {c : Comp} (h : SegsOK c.segs) :
    SegsOK (calculateSegmentationR cfg caret c).segs :=
  forwardIfSelected_ok (trimUnlessPlaceholder_ok (segLoopG_ok (fun _ hc => segStepR_ok cfg hc) caret _ h))

theorem calculateSegmentationR_input (cfg : RSegCfg) (caret : Nat) (c : Comp) :
    (calculateSegmentationR cfg caret c).input = c.input := by
  unfold calculateSegmentationR forwardIfSelected trimUnlessPlaceholder
  (repeat' split) <;> simp only [forward_input, trim_input, segLoopG_input (segStepR_input cfg)]

/-- the Compose of a schema with the recognizer family satisfies the hypothesis of the session theorems, for every list
of segmentors, every pattern search function, every affix configuration, punctuation mapping, translation oracle and filter -/
theorem composeR_spec (cfg : RSegCfg) : ComposeSpec (composeR cfg) := by
  refine ⟨?_, ?_⟩
  · intro input caret c h
    unfold composeR
    dsimp only
    refine translateSegmentsP_ok cfg.toPSegCfg (calculateSegmentationR_ok cfg caret ?_)
    split
    · exact reset_ok (reset_ok h _) _
    · exact reset_ok h _
  · intro input caret c
    unfold composeR
    dsimp only
    show (calculateSegmentationR cfg caret _).input.length ≤ input.length
    rw [calculateSegmentationR_input]
    split
    · rw [reset_input]; exact Nat.le_refl _
    · rw [reset_input]; simp only [List.length_take]; omega

/-- recomposing an empty input with no segments yields no segments (what C03(c) needs) -/
theorem composeR_empty_spec (cfg : RSegCfg) : ComposeEmptySpec (composeR cfg) := by
  intro k hk
  unfold composeR
  simp only [List.take_nil, List.length_nil, Nat.lt_irrefl, false_and, if_false]
  have hr : (k.reset []).segs = [] ∧ (k.reset []).input = [] := by
    unfold Comp.reset
    simp [hk, popWhileEndGt]
  generalize k.reset [] = k1 at hr
  obtain ⟨hs, hi⟩ := hr
  have hseg : (segLoopG (segStepR cfg) 0 (k1.input.length + 2) k1) = k1 := by
    rw [hi]; simp only [List.length_nil, Nat.zero_add]
    unfold segLoopG
    have : k1.hasFinishedSegmentation = true := by
      unfold Comp.hasFinishedSegmentation Comp.currentEnd; simp [hs, hi]
    simp [this]
  unfold translateSegmentsP calculateSegmentationR
  rw [hseg]
  unfold trimUnlessPlaceholder forwardIfSelected
  simp [hs]

end RimeModel.Session
