import RimeModel.Session.Types
/-!
The class of `recognizer/patterns` the DRIVER implements (the model itself takes any search function, `RecPattern.search`,
and every theorem quantifies over all of them — boost::regex is not modelled).

COVERED CLASS.  A pattern is

    [^] item item … item [$]

where each item is a byte set — one literal character, or a bracket class of literal characters and ranges without
negation, e.g. `U`, `[a-z]`, `[a-z0-9;]` — followed by nothing, `?`, `*` or `+` (greedy).  No alternation, groups,
back-references, dots, escapes other than of a literal character, lazy or possessive quantifiers, case folding.  The stock
patterns `^[A-Z][a-z]*$`-like / "`[a-z]*'?$" / `^U[a-z]+$` are in the class; `^/([0-9]0?|[A-Za-z]+)$` (alternation) is not.
A pattern outside the class has no description; the driver refuses the schema (`bad-op`).

SEMANTICS (what `boost::regex_search(text, m, re)` with the default Perl syntax and `match_default` reports for such a
pattern): the leftmost start position at which a match exists; at that position the first match in backtracking order (each
quantified item tries the largest count first).  `^` holds at position 0 and right after a line separator (`\n`, `\r`,
`\f` — Boost behaves as if Perl's /m were on), except between `\r` and `\n`; `$` holds at the end of the text and right
before a line separator, except between `\r` and `\n`.  Bytes are compared as bytes: a class of ASCII ranges never
matches a byte ≥ 0x80.
-/
namespace RimeModel.Session

inductive Quant where | one | opt | star | plus
  deriving Repr, DecidableEq, Inhabited

/-- a byte set (inclusive ranges) with its quantifier -/
structure PItem where
  ranges : List (UInt8 × UInt8)
  quant : Quant
  deriving Repr, DecidableEq, Inhabited

structure Pattern where
  anchoredStart : Bool
  items : List PItem
  anchoredEnd : Bool
  deriving Repr, DecidableEq, Inhabited

def PItem.mem (it : PItem) (b : UInt8) : Bool := it.ranges.any (fun r => decide (r.1 ≤ b) && decide (b ≤ r.2))

def isLineSep (b : UInt8) : Bool := b == 10 || b == 13 || b == 12

/-- `match_start_line` at position `p` of `s` -/
def atBol (s : Bytes) (p : Nat) : Bool :=
  if p = 0 then true
  else match s[p - 1]? with
    | none => false
    | some t => match s[p]? with
      | some x => isLineSep t && !(t == 13 && x == 10)
      | none => isLineSep t

/-- `match_end_line` at position `p` of `s` -/
def atEol (s : Bytes) (p : Nat) : Bool :=
  match s[p]? with
  | none => true
  | some x =>
    isLineSep x && !(decide (p > 0) && (s[p - 1]?).any (· == 13) && x == 10)

/-- how many bytes from `p` on lie in the item's set -/
def runLength (it : PItem) (s : Bytes) (p : Nat) : Nat := ((s.drop p).takeWhile it.mem).length

/-- the end position of the first match of `items` (then `$` if anchored) starting at `p`, in backtracking order -/
def matchItems (s : Bytes) (anchoredEnd : Bool) : List PItem → Nat → Option Nat
  | [], p => if anchoredEnd then (if atEol s p then some p else none) else some p
  | it :: rest, p =>
    let n := runLength it s p
    let lo := match it.quant with | .one => 1 | .plus => 1 | .opt => 0 | .star => 0
    let hi := match it.quant with | .one => min n 1 | .opt => min n 1 | .plus => n | .star => n
    -- counts hi, hi-1, …, lo
    ((List.range (hi + 1 - lo)).reverse.map (· + lo)).findSome? (fun cnt => matchItems s anchoredEnd rest (p + cnt))

/-- `regex_search`: position and length of the leftmost match -/
def Pattern.search (pt : Pattern) (s : Bytes) : Option (Nat × Nat) :=
  (List.range (s.length + 1)).findSome? (fun p =>
    if pt.anchoredStart && !atBol s p then none
    else match matchItems s pt.anchoredEnd pt.items p with
      | some e => some (p, e - p)
      | none => none)

end RimeModel.Session
