import RimeModel.Session.InvProc
import RimeModel.Session.GeoProc
/-!
The `full_shape` option (gear/shape.cc, engine.cc): `ShapeFormatter` (applied to every committed composition:
`Env.format`), `ShapeProcessor` (the engine's post-processor: an unhandled printable key is delivered as its
full-width form), and the fact that `PunctConfig::LoadConfig` re-reads the option before every use, so the
recomposition function of a schema with punctuation depends on it.

`Env.recompose` has no access to the options; a schema is therefore a *pair* of environments `envOf false`,
`envOf true` (half / full shape) and each API call runs in the environment of the value `full_shape` has once the
call has stored its own change (`set_option` stores the value first and recomposes afterwards; no modelled
component changes the option on its own).
-/
namespace RimeModel.Session

-- `isPrintable`, `shapeFormat` live in Session/Processors.lean (the key binder's nested ProcessKey needs them)

/-- the value of `full_shape` the components of this call see -/
def shapeAfter (c : Ctx) (op : Op) : Bool :=
  match op with
  | .setOption name v => if name = "full_shape" then v else c.getOption "full_shape"
  | _ => c.getOption "full_shape"

-- `shapePost` (ShapeProcessor::ProcessKeyEvent) lives in Session/Processors.lean

/-- one API call on a schema given as its two environments -/
def apiStepS (envOf : Bool → Env) (c : Ctx) (op : Op) : Ctx × Ret :=
  let r := apiStep (envOf (shapeAfter c op)) c op
  match op with
  | .key code mask =>
    if r.2.ok then r
    else let p := shapePost ⟨code, mask⟩ r.1; (p.1, ⟨p.2, []⟩)
  | _ => r

def runOpsS (envOf : Bool → Env) (c : Ctx) (ops : List Op) : Ctx := ops.foldl (fun c op => (apiStepS envOf c op).1) c

-- `shapePost_inv` / `shapePost_geo` live in Session/InvProc.lean / GeoProc.lean

theorem apiStepS_inv {envOf : Bool → Env} (hrc : ∀ b, ComposeSpec (envOf b).recompose) (op : Op) {c : Ctx} (h : Inv c) :
    Inv (apiStepS envOf c op).1 := by
  have h1 := apiStep_inv (hrc (shapeAfter c op)) op h
  unfold apiStepS
  cases op <;> dsimp only
  case key code mask =>
    split
    · exact h1
    · exact shapePost_inv _ h1
  all_goals exact h1

theorem runOpsS_inv {envOf : Bool → Env} (hrc : ∀ b, ComposeSpec (envOf b).recompose) (ops : List Op) {c : Ctx} (h : Inv c) :
    Inv (runOpsS envOf c ops) := by
  unfold runOpsS
  induction ops generalizing c with
  | nil => exact h
  | cons op ops ih => exact ih (apiStepS_inv hrc op h)

theorem apiStepS_geo {envOf : Bool → Env} (hrc : ∀ b, ComposeGeoSpec (envOf b).recompose) (hnp : ∀ b, NoPrevMatch (envOf b))
    (op : Op) {c : Ctx} (h : GeoInv c) : GeoInv (apiStepS envOf c op).1 := by
  have h1 := apiStep_geo (hrc (shapeAfter c op)) (hnp _) op h
  unfold apiStepS
  cases op <;> dsimp only
  case key code mask =>
    split
    · exact h1
    · exact shapePost_geo _ h1
  all_goals exact h1

theorem runOpsS_geo {envOf : Bool → Env} (hrc : ∀ b, ComposeGeoSpec (envOf b).recompose) (hnp : ∀ b, NoPrevMatch (envOf b))
    (ops : List Op) {c : Ctx} (h : GeoInv c) : GeoInv (runOpsS envOf c ops) := by
  unfold runOpsS
  induction ops generalizing c with
  | nil => exact h
  | cons op ops ih => exact ih (apiStepS_geo hrc hnp op h)

/-! ### the key binder and `full_shape`

A binding of the key binder may change `full_shape` itself (`toggle: full_shape` on Shift+space in the stock
configuration).  The option is stored before the engine recomposes (Context::set_option → OnOptionUpdate →
RefreshNonConfirmedComposition), so the call has to run in the environment of the NEW value, exactly as for the API's
`set_option`.  Which binding fires is decided by the key binder on the state it is handed; when it is the first
processor of the list that is the state at the start of the call, and the decision does not depend on the environment's
shape (the binding list, the switches and the conditions are the same in both).  `shapeAfterK` runs that decision (with a
do-nothing stand-in for the nested ProcessKey: no modelled processor other than the key binder writes an option) and
reads the option off the result.  For every other call it is `shapeAfter`.  When the key binder is not the first
processor the prediction is not attempted (the driver refuses such a schema if a binding can change `full_shape`). -/

def shapeAfterK (envOf : Bool → Env) (c : Ctx) (op : Op) : Bool :=
  match op with
  | .key code mask =>
    let env := envOf (c.getOption "full_shape")
    match env.processors with
    | .keyBinder :: _ => (kbProcess (fun _ c => (c, false)) env ⟨code, mask⟩ c).1.getOption "full_shape"
    | _ => c.getOption "full_shape"
  | _ => shapeAfter c op

/-- the call itself, as in `apiStepS` but in the environment `shapeAfterK` chooses -/
def apiStepK0 (envOf : Bool → Env) (c : Ctx) (op : Op) : Ctx × Ret :=
  let r := apiStep (envOf (shapeAfterK envOf c op)) c op
  match op with
  | .key code mask =>
    if r.2.ok then r
    else let p := shapePost ⟨code, mask⟩ r.1; (p.1, ⟨p.2, []⟩)
  | _ => r

/-- one API call on a schema with a key binder and / or an ascii composer, given as its two environments; the ascii
composer's context-update listener (temporary inline mode ends when the composition does) is applied at the end of the
call (`acSettle`, Session/Processors.lean) -/
def apiStepK (envOf : Bool → Env) (c : Ctx) (op : Op) : Ctx × Ret :=
  let r := apiStepK0 envOf c op
  (acSettle r.1, r.2)

def runOpsK (envOf : Bool → Env) (c : Ctx) (ops : List Op) : Ctx := ops.foldl (fun c op => (apiStepK envOf c op).1) c

/-- without a key binder at the head of the processor list the two layers coincide (up to the ascii composer's listener,
which does nothing unless the ascii composer has switched its inline mode on) -/
theorem apiStepK0_eq_apiStepS (envOf : Bool → Env) (h : ∀ b ps, (envOf b).processors ≠ .keyBinder :: ps) (c : Ctx) (op : Op) :
    apiStepK0 envOf c op = apiStepS envOf c op := by
  have hs : shapeAfterK envOf c op = shapeAfter c op := by
    unfold shapeAfterK
    cases op <;> try rfl
    case key code mask =>
      dsimp only
      split
      · rename_i ps hps
        exact absurd hps (h _ ps)
      · rfl
  unfold apiStepK0 apiStepS
  rw [hs]

theorem apiStepK_inv {envOf : Bool → Env} (hrc : ∀ b, ComposeSpec (envOf b).recompose) (op : Op) {c : Ctx} (h : Inv c) :
    Inv (apiStepK envOf c op).1 := by
  have h1 := apiStep_inv (hrc (shapeAfterK envOf c op)) op h
  unfold apiStepK
  refine acSettle_inv ?_
  unfold apiStepK0
  cases op <;> dsimp only
  case key code mask =>
    split
    · exact h1
    · exact shapePost_inv _ h1
  all_goals exact h1

theorem runOpsK_inv {envOf : Bool → Env} (hrc : ∀ b, ComposeSpec (envOf b).recompose) (ops : List Op) {c : Ctx} (h : Inv c) :
    Inv (runOpsK envOf c ops) := by
  unfold runOpsK
  induction ops generalizing c with
  | nil => exact h
  | cons op ops ih => exact ih (apiStepK_inv hrc op h)

theorem apiStepK_geo {envOf : Bool → Env} (hrc : ∀ b, ComposeGeoSpec (envOf b).recompose) (hnp : ∀ b, NoPrevMatch (envOf b))
    (op : Op) {c : Ctx} (h : GeoInv c) : GeoInv (apiStepK envOf c op).1 := by
  have h1 := apiStep_geo (hrc (shapeAfterK envOf c op)) (hnp _) op h
  unfold apiStepK
  refine acSettle_geo ?_
  unfold apiStepK0
  cases op <;> dsimp only
  case key code mask =>
    split
    · exact h1
    · exact shapePost_geo _ h1
  all_goals exact h1

theorem runOpsK_geo {envOf : Bool → Env} (hrc : ∀ b, ComposeGeoSpec (envOf b).recompose) (hnp : ∀ b, NoPrevMatch (envOf b))
    (ops : List Op) {c : Ctx} (h : GeoInv c) : GeoInv (runOpsK envOf c ops) := by
  unfold runOpsK
  induction ops generalizing c with
  | nil => exact h
  | cons op ops ih => exact ih (apiStepK_geo hrc hnp op h)

/-! ### time

The ascii composer reads `std::chrono::steady_clock` (a Shift / Control tap switches ascii_mode only when the release comes
within 500 ms of the press).  The clock is `Ctx.clock`; nothing in the model moves it.  A timed history gives, for each
call, the time that passes before it. -/

/-- the environment lets `ms` milliseconds pass -/
def tick (c : Ctx) (ms : Nat) : Ctx := { c with clock := c.clock + ms }

def runOpsT (envOf : Bool → Env) (c : Ctx) (ops : List (Nat × Op)) : Ctx :=
  ops.foldl (fun c e => (apiStepK envOf (tick c e.1) e.2).1) c

theorem tick_inv {c : Ctx} (h : Inv c) (ms : Nat) : Inv (tick c ms) := h.frame rfl rfl rfl

theorem tick_geo {c : Ctx} (h : GeoInv c) (ms : Nat) : GeoInv (tick c ms) := h.of_comp rfl

theorem runOpsT_inv {envOf : Bool → Env} (hrc : ∀ b, ComposeSpec (envOf b).recompose) (ops : List (Nat × Op)) {c : Ctx} (h : Inv c) :
    Inv (runOpsT envOf c ops) := by
  unfold runOpsT
  induction ops generalizing c with
  | nil => exact h
  | cons e ops ih => exact ih (apiStepK_inv hrc e.2 (tick_inv h e.1))

theorem runOpsT_geo {envOf : Bool → Env} (hrc : ∀ b, ComposeGeoSpec (envOf b).recompose) (hnp : ∀ b, NoPrevMatch (envOf b))
    (ops : List (Nat × Op)) {c : Ctx} (h : GeoInv c) : GeoInv (runOpsT envOf c ops) := by
  unfold runOpsT
  induction ops generalizing c with
  | nil => exact h
  | cons e ops ih => exact ih (apiStepK_geo hrc hnp e.2 (tick_geo h e.1))

/-- a history without delays is an untimed history -/
theorem runOpsT_zero (envOf : Bool → Env) (c : Ctx) (ops : List Op) :
    runOpsT envOf c (ops.map (fun op => (0, op))) = runOpsK envOf c ops := by
  unfold runOpsT runOpsK
  induction ops generalizing c with
  | nil => rfl
  | cons op ops ih =>
    simp only [List.map_cons, List.foldl_cons]
    have : tick c 0 = c := by unfold tick; simp
    rw [this]
    exact ih _

end RimeModel.Session
