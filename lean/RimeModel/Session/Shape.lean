import RimeModel.Session.InvProc
import RimeModel.Session.GeoProc
/-!
The `full_shape` option (gear/shape.cc, engine.cc): `ShapeFormatter` (applied to every committed composition:
`Env.format`), `ShapeProcessor` (the engine's post-processor: an unhandled printable key is delivered as its
full-width form), and the fact that `PunctConfig::LoadConfig` re-reads the option before every use, so the
recomposition function of a schema with punctuation depends on it.

`Env.recompose` has no access to the options; a schema is therefore a *pair* of environments `envOf false`,
`envOf true` (half / full shape) and each API call runs in the environment of the value `full_shape` has once the
call has stored its own change (`set_option` stores the value first and recomposes afterwards; no modelled
component changes the option on its own).
-/
namespace RimeModel.Session

def isPrintable (b : UInt8) : Bool := decide (b ≥ 0x20) && decide (b ≤ 0x7e)

/-- ShapeFormatter::Format with `full_shape` on (`char` is signed: bytes ≥ 0x80 are `< 0x20`) -/
def shapeFormat (t : Bytes) : Bytes :=
  if t.all (fun b => !isPrintable b) then t
  else t.flatMap (fun b =>
    if b = 0x20 then [0xe3, 0x80, 0x80]
    else if isPrintable b then [0xef, 0xbc + (b - 0x20) / 0x40, 0x80 + (b - 0x20) % 0x40]
    else [b])

/-- the value of `full_shape` the components of this call see -/
def shapeAfter (c : Ctx) (op : Op) : Bool :=
  match op with
  | .setOption name v => if name = "full_shape" then v else c.getOption "full_shape"
  | _ => c.getOption "full_shape"

/-- ShapeProcessor::ProcessKeyEvent, run by ConcreteEngine::ProcessKey after the processors when none of them
accepted the key (also after a `kRejected`) -/
def shapePost (k : Key) (c : Ctx) : Ctx × Bool :=
  if !c.getOption "full_shape" then (c, false)
  else if k.ctrl || k.alt || k.super || k.release then (c, false)
  else if k.code < 0x20 || k.code > 0x7e then (c, false)
  else ({ c with commitBuf := c.commitBuf ++ shapeFormat [k.byte] }, true)

/-- one API call on a schema given as its two environments -/
def apiStepS (envOf : Bool → Env) (c : Ctx) (op : Op) : Ctx × Ret :=
  let r := apiStep (envOf (shapeAfter c op)) c op
  match op with
  | .key code mask =>
    if r.2.ok then r
    else let p := shapePost ⟨code, mask⟩ r.1; (p.1, ⟨p.2, []⟩)
  | _ => r

def runOpsS (envOf : Bool → Env) (c : Ctx) (ops : List Op) : Ctx := ops.foldl (fun c op => (apiStepS envOf c op).1) c

theorem shapePost_inv (k : Key) {c : Ctx} (h : Inv c) : Inv (shapePost k c).1 := by
  unfold shapePost
  (repeat' split) <;> first | exact h | exact commitBuf_inv h _

theorem shapePost_geo (k : Key) {c : Ctx} (h : GeoInv c) : GeoInv (shapePost k c).1 := by
  unfold shapePost
  (repeat' split) <;> first | exact h | exact commitBuf_geo h _

theorem apiStepS_inv {envOf : Bool → Env} (hrc : ∀ b, ComposeSpec (envOf b).recompose) (op : Op) {c : Ctx} (h : Inv c) :
    Inv (apiStepS envOf c op).1 := by
  have h1 := apiStep_inv (hrc (shapeAfter c op)) op h
  unfold apiStepS
  cases op <;> dsimp only
  case key code mask =>
    split
    · exact h1
    · exact shapePost_inv _ h1
  all_goals exact h1

theorem runOpsS_inv {envOf : Bool → Env} (hrc : ∀ b, ComposeSpec (envOf b).recompose) (ops : List Op) {c : Ctx} (h : Inv c) :
    Inv (runOpsS envOf c ops) := by
  unfold runOpsS
  induction ops generalizing c with
  | nil => exact h
  | cons op ops ih => exact ih (apiStepS_inv hrc op h)

theorem apiStepS_geo {envOf : Bool → Env} (hrc : ∀ b, ComposeGeoSpec (envOf b).recompose) (hnp : ∀ b, NoPrevMatch (envOf b))
    (op : Op) {c : Ctx} (h : GeoInv c) : GeoInv (apiStepS envOf c op).1 := by
  have h1 := apiStep_geo (hrc (shapeAfter c op)) (hnp _) op h
  unfold apiStepS
  cases op <;> dsimp only
  case key code mask =>
    split
    · exact h1
    · exact shapePost_geo _ h1
  all_goals exact h1

theorem runOpsS_geo {envOf : Bool → Env} (hrc : ∀ b, ComposeGeoSpec (envOf b).recompose) (hnp : ∀ b, NoPrevMatch (envOf b))
    (ops : List Op) {c : Ctx} (h : GeoInv c) : GeoInv (runOpsS envOf c ops) := by
  unfold runOpsS
  induction ops generalizing c with
  | nil => exact h
  | cons op ops ih => exact ih (apiStepS_geo hrc hnp op h)

end RimeModel.Session
