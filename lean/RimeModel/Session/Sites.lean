import RimeModel.Session.InvProc
/-! C01: the partial C++ operations of the modelled context / processor / API code, each with the guard
under which the code executes it and the precondition C++ requires (std::string::erase/insert/operator[],
a non-null candidate, a non-zero divisor). -/
namespace RimeModel.Session

inductive Site where
  /-- context.cc PushInput: `input_.insert(caret_pos_, 1, ch)` in the `caret_pos_ < length` branch -/
  | pushInputInsert
  /-- context.cc PopInput(len): `caret_pos_ -= len; input_.erase(caret_pos_, len)` after `caret_pos_ >= len` -/
  | popInputErase (len : Nat)
  /-- context.cc DeleteInput(len): `input_.erase(caret_pos_, len)` after `caret_pos_ + len <= length` -/
  | deleteInputErase (len : Nat)
  /-- speller.cc expecting_an_initial: `input[caret_pos - 1]` when caret is neither 0 nor the segment start -/
  | spellerPrevChar
  /-- speller.cc AutoSelectUniqueCandidate: `cand->start()` after `HasMenu()` and `Prepare(2) == 1` -/
  | uniqueCandidateDeref
  /-- rime_api_impl.h RimeGetContext / do_with_candidate_on_current_page / selector.cc: `selected_index / page_size` -/
  | pageDivision
  /-- rime_api_impl.h RimeGetContext: the highlighted entry of the page exists when a page is reported -/
  | highlightedOnPage
  deriving Repr, DecidableEq

/-- the condition under which the code reaches the operation -/
def Site.guard (env : Env) (c : Ctx) : Site → Prop
  | .pushInputInsert => c.caret < c.input.length
  | .popInputErase len => len ≤ c.caret
  | .deleteInputErase len => c.caret + len ≤ c.input.length
  | .spellerPrevChar => ¬ (c.caret = 0 ∨ c.caret = c.comp.currentStart)
  | .uniqueCandidateDeref => c.hasMenu = true ∧ ∃ g, c.comp.segs.getLast? = some g ∧ g.prepare 2 = 1
  | .pageDivision => True
  | .highlightedOnPage => (view env c).menu.isSome = true

/-- what C++ requires of the operands -/
def Site.pre (env : Env) (c : Ctx) : Site → Prop
  | .pushInputInsert => c.caret ≤ c.input.length
  | .popInputErase len => c.caret - len ≤ c.input.length
  | .deleteInputErase _ => c.caret ≤ c.input.length
  | .spellerPrevChar => c.caret - 1 < c.input.length
  | .uniqueCandidateDeref => ∃ g cd, c.comp.segs.getLast? = some g ∧ g.selected = some cd
  | .pageDivision => env.pageSize ≠ 0
  | .highlightedOnPage => ∀ m, (view env c).menu = some m → ∃ cd, m.cands[m.highlighted]? = some cd

end RimeModel.Session
