/-
M-session — shared model of Context / Composition / Segmentation / Menu views / engine glue /
processors (speller, selector, navigator, editor) / API layer of librime.
Byte strings are `List UInt8`; carets and segment bounds are byte offsets exactly as in the code.
-/
namespace RimeModel.Session

abbrev Bytes := List UInt8

/-- `std::string::substr(pos, n)` made total: callers that need the C++ precondition `pos ≤ size`
state it separately (C01). -/
def substr (s : Bytes) (pos n : Nat) : Bytes := (s.drop pos).take n

/-- a candidate as the engine sees it (`Candidate`): covered range, text, comment, preedit -/
structure Cand where
  text : Bytes
  comment : Bytes := []
  preedit : Bytes := []
  start : Nat
  stop : Nat            -- `end()`
  /-- `is_table_entry(cand) || is_simple_candidate(cand)` in speller.cc -/
  autoSelectable : Bool := true
  deriving Repr, DecidableEq, Inhabited

/-- Segment::Status, ordered kVoid < kGuess < kSelected < kConfirmed -/
inductive Status where
  | void | guess | selected | confirmed
  deriving Repr, DecidableEq, Inhabited

def Status.rank : Status → Nat
  | .void => 0 | .guess => 1 | .selected => 2 | .confirmed => 3

/-- the tags the modelled code reads or writes (a `set<string>` in C++; one flag per tag) -/
structure Tags where
  abc : Bool := false
  raw : Bool := false
  partial_ : Bool := false
  paging : Bool := false
  selectedBeforeEditing : Bool := false
  phony : Bool := false
  placeholder : Bool := false
  /-- set by PunctSegmentor (punctuator.cc) -/
  punct : Bool := false
  /-- every other tag, by name (the recognizer's pattern names set by the matcher; the affix segmentor's `tag`, `tag_prefix`,
  `tag_suffix` and extra tags): a set, kept without repetitions in insertion order -/
  extra : List String := []
  deriving Repr, DecidableEq, Inhabited

def Tags.union (a b : Tags) : Tags :=
  { abc := a.abc || b.abc, raw := a.raw || b.raw, partial_ := a.partial_ || b.partial_,
    paging := a.paging || b.paging, selectedBeforeEditing := a.selectedBeforeEditing || b.selectedBeforeEditing,
    phony := a.phony || b.phony, placeholder := a.placeholder || b.placeholder,
    punct := a.punct || b.punct, extra := a.extra ++ b.extra.filter (fun n => !a.extra.contains n) }

/-- `segment.HasTag(name)` for a tag given by name (the tags the rest of the model reads are the flags above) -/
def Tags.has (t : Tags) (n : String) : Bool :=
  if n = "abc" then t.abc else if n = "raw" then t.raw else if n = "partial" then t.partial_
  else if n = "paging" then t.paging else if n = "selected_before_editing" then t.selectedBeforeEditing
  else if n = "phony" then t.phony else if n = "placeholder" then t.placeholder else if n = "punct" then t.punct
  else t.extra.contains n

/-- `segment.tags.insert(name)` -/
def Tags.insert (t : Tags) (n : String) : Tags :=
  if n = "abc" then { t with abc := true } else if n = "raw" then { t with raw := true }
  else if n = "partial" then { t with partial_ := true } else if n = "paging" then { t with paging := true }
  else if n = "selected_before_editing" then { t with selectedBeforeEditing := true }
  else if n = "phony" then { t with phony := true } else if n = "placeholder" then { t with placeholder := true }
  else if n = "punct" then { t with punct := true }
  else if t.extra.contains n then t else { t with extra := t.extra ++ [n] }

/-- `segment.tags.erase(name)` -/
def Tags.erase (t : Tags) (n : String) : Tags :=
  if n = "abc" then { t with abc := false } else if n = "raw" then { t with raw := false }
  else if n = "partial" then { t with partial_ := false } else if n = "paging" then { t with paging := false }
  else if n = "selected_before_editing" then { t with selectedBeforeEditing := false }
  else if n = "phony" then { t with phony := false } else if n = "placeholder" then { t with placeholder := false }
  else if n = "punct" then { t with punct := false }
  else { t with extra := t.extra.filter (fun m => m != n) }

/-- Segment.  `menu = none` is a null `an<Menu>`; `some l` is a menu whose full (merged, filtered)
candidate list is `l` — the lazily filled cache of the real Menu is the subject of C04, whose
theorems show every observation used here is a function of the full list. -/
structure Seg where
  status : Status := .void
  start : Nat := 0
  stop : Nat := 0       -- `end`
  length : Nat := 0
  tags : Tags := {}
  menu : Option (List Cand) := none
  selIdx : Nat := 0
  prompt : Bytes := []
  deriving Repr, DecidableEq, Inhabited

def Seg.mk' (s e : Nat) : Seg := { start := s, stop := e, length := e - s }

def Seg.candAt (g : Seg) (i : Nat) : Option Cand :=
  match g.menu with
  | none => none
  | some l => l[i]?

def Seg.selected (g : Seg) : Option Cand := g.candAt g.selIdx

/-- `Menu::Prepare(n)` as far as its callers can tell: the number of candidates available
among the first `n` (see C04 `prepare_count`) -/
def Seg.prepare (g : Seg) (n : Nat) : Nat :=
  match g.menu with
  | none => 0
  | some l => min n l.length

/-- Composition = Segmentation (vector<Segment> + its own copy of the input it was computed for) -/
structure Comp where
  input : Bytes := []
  segs : List Seg := []
  /-- GHOST: the value of the context's `ascii_mode` option, which `AsciiSegmentor::Proceed` reads through
  `engine_->context()->get_option("ascii_mode")` in the middle of a recomposition.  `Env.recompose` is a function of
  (input, caret, composition) only, so the one option a segmentor reads travels with the composition: it is written by
  `Ctx.setOptionRaw` (the only writer of `Ctx.options`) and by nothing else; no other component of the model looks at it. -/
  ascii : Bool := false
  deriving Repr, DecidableEq, Inhabited

/-- client-visible + internal state of one session's Context and commit buffer -/
structure Ctx where
  input : Bytes := []
  caret : Nat := 0
  comp : Comp := {}
  options : List (String × Bool) := []
  /-- Session::commit_text_ -/
  commitBuf : Bytes := []
  /-- Navigator::input_ / spans_ (vertices, ascending) -/
  navInput : Bytes := []
  navSpans : List Nat := []
  /-- Punctuator::oddness_ : the paired-punctuation definitions (shape, key) whose oddness is 1 -/
  punctOdd : List (Bool × UInt8) := []
  /-- KeyBinder::last_key_ : keycode of the last key press without modifiers the key binder looked at (0 otherwise) -/
  kbLastKey : Int := 0
  /-- AsciiComposer::shift_key_pressed_ / ctrl_key_pressed_ / toggle_with_caps_ -/
  acShift : Bool := false
  acCtrl : Bool := false
  acToggleWithCaps : Bool := false
  /-- AsciiComposer::toggle_expired_, in ms on `clock` -/
  acExpire : Nat := 0
  /-- AsciiComposer::connection_ is connected to the context's update notifier (temporary "inline" ascii mode) -/
  acInline : Bool := false
  /-- the reading of std::chrono::steady_clock in ms: a parameter of the model, moved only by the environment -/
  clock : Nat := 0
  deriving Repr, DecidableEq, Inhabited

def Ctx.getOption (c : Ctx) (name : String) : Bool :=
  match c.options.find? (·.1 == name) with
  | some (_, v) => v
  | none => false

def Ctx.setOptionRaw (c : Ctx) (name : String) (v : Bool) : Ctx :=
  { c with options := (name, v) :: c.options.filter (·.1 != name),
           comp := if name = "ascii_mode" then { c.comp with ascii := v } else c.comp }

theorem Ctx.setOptionRaw_segs (c : Ctx) (name : String) (v : Bool) : (c.setOptionRaw name v).comp.segs = c.comp.segs := by
  unfold Ctx.setOptionRaw; dsimp only; split <;> rfl

theorem Ctx.setOptionRaw_cinput (c : Ctx) (name : String) (v : Bool) : (c.setOptionRaw name v).comp.input = c.comp.input := by
  unfold Ctx.setOptionRaw; dsimp only; split <;> rfl

/-- one entry of `punctuator/half_shape` or `punctuator/full_shape` (punctuator.cc): a scalar (`ConfigValue`),
a list of scalars (`ConfigList`), `{commit: t}` or `{pair: [a, b]}` (`ConfigMap`; `commit` is looked at first) -/
inductive PunctDef where
  | unique (t : Bytes)
  | alt (ts : List Bytes)
  | commit (t : Bytes)
  | pair (a b : Bytes)
  deriving Repr, DecidableEq, Inhabited

/-- the `punctuator:` section of a schema.  `digit_separators` is empty in every modelled schema (the
digit-separator path reads the commit history, which is not part of the model; the driver refuses
schemas that leave it on). -/
structure PunctCfg where
  half : List (UInt8 × PunctDef) := []
  full : List (UInt8 × PunctDef) := []
  useSpace : Bool := false
  deriving Repr, DecidableEq, Inhabited

def punctFind (m : List (UInt8 × PunctDef)) (b : UInt8) : Option PunctDef :=
  match m.find? (·.1 == b) with
  | some e => some e.2
  | none => none

/-- `PunctConfig::LoadConfig` + `GetPunctDefinition`: the mapping of the current shape -/
def PunctCfg.mapping (p : PunctCfg) (fullShape : Bool) : List (UInt8 × PunctDef) := if fullShape then p.full else p.half

/-- AsciiModeSwitchStyle (ascii_composer.h) of a loaded `ascii_composer/switch_key` entry (`noop` entries are not loaded) -/
inductive AcStyle where
  | inline | commitText | commitCode | clear
  deriving Repr, DecidableEq, Inhabited

/-! ### key_binder configuration (key_binder.cc: KeyBindings::LoadBindings) and `switches:` (switches.cc) -/

/-- KeyBindingCondition (`when:`), in the order of the enum: a binding list of one key is kept sorted by it -/
inductive KbWhen where
  | predicting | paging | hasMenu | composing | always
  deriving Repr, DecidableEq, Inhabited

def KbWhen.rank : KbWhen → Nat
  | .predicting => 1 | .paging => 2 | .hasMenu => 3 | .composing => 4 | .always => 5

/-- what a binding does: `send:` / `send_sequence:` (a key sequence handed back to the engine; `send` is a sequence
of one), `toggle:`, `set_option:`, `unset_option:`.  `select:` (schema switching) is outside the model. -/
inductive KbAction where
  | send (keys : List (Int × Nat))
  | toggle (opt : String)
  | setOption (opt : String)
  | unsetOption (opt : String)
  deriving Repr, DecidableEq, Inhabited

/-- one loaded entry of `key_binder/bindings` (entries LoadBindings skips are not part of the list) -/
structure KbBinding where
  whence : KbWhen
  code : Int
  mask : Nat
  action : KbAction
  deriving Repr, DecidableEq, Inhabited

/-- one entry of `switches:`: `{name: x, reset: r}` or `{options: [a, b, …], reset: r}` (`reset = -1`: not given) -/
inductive SwitchDef where
  | toggle (name : String) (reset : Int)
  | radio (options : List String) (reset : Int)
  deriving Repr, DecidableEq, Inhabited

/-! ### recognizer / matcher / affix_segmentor configuration -/

/-- one entry of `recognizer/patterns`: the pattern's name (the tag the matcher sets) and its `boost::regex_search` on the
active input — position and length of the leftmost match, `none` when there is none.  The regular expression itself is
NOT modelled: every theorem quantifies over all search functions; the driver supplies the function of a small class of
patterns (Session/RecogPattern.lean) that the synthetic schemas stay inside. -/
structure RecPattern where
  tag : String
  search : Bytes → Option (Nat × Nat)

/-- the configuration of one `affix_segmentor@name` (affix_segmentor.cc: constructor) -/
structure AffixCfg where
  tag : String := "abc"
  prefix_ : Bytes := []
  suffix : Bytes := []
  tips : Bytes := []
  closingTips : Bytes := []
  /-- `extra_tags` (a std::set: they are only ever inserted, the order does not matter) -/
  extraTags : List String := []
  deriving Repr, DecidableEq, Inhabited

end RimeModel.Session
