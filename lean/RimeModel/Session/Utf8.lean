import RimeModel.Session.WellFormed
/-! C02, UTF-8 clause: the preedit's sel_start / sel_end / cursor fall on character boundaries, provided
every piece GetPreedit concatenates starts a character (does not begin with a continuation byte). -/
namespace RimeModel.Session

/-- UTF-8 continuation byte 10xxxxxx -/
def isCont (b : UInt8) : Bool := 0x80 ≤ b.toNat && b.toNat < 0xC0

/-- a byte string that does not start in the middle of a character -/
def PieceOK (s : Bytes) : Prop := ∀ b, s.head? = some b → isCont b = false

/-- position `p` of `t` is a character boundary: the end, or a byte that starts a character -/
def Bnd (t : Bytes) (p : Nat) : Prop := p = t.length ∨ (p < t.length ∧ ∀ b, t[p]? = some b → isCont b = false)

theorem Bnd.le {t : Bytes} {p : Nat} (h : Bnd t p) : p ≤ t.length := by
  rcases h with h | ⟨h, _⟩ <;> omega

theorem bnd_end (t : Bytes) : Bnd t t.length := Or.inl rfl

theorem bnd_append {t s : Bytes} {p : Nat} (h : Bnd t p) (hs : PieceOK s) : Bnd (t ++ s) p := by
  rcases h with h | ⟨h, hb⟩
  · subst h
    cases s with
    | nil => left; simp
    | cons x xs =>
      right
      refine ⟨by simp, ?_⟩
      intro b hb
      rw [List.getElem?_append_right (Nat.le_refl _)] at hb
      simp only [Nat.sub_self, List.getElem?_cons_zero, Option.some.injEq] at hb
      exact hs b (by simp [hb])
  · right
    refine ⟨by simp; omega, ?_⟩
    intro b hb'
    rw [List.getElem?_append_left h] at hb'
    exact hb b hb'

theorem pieceOK_nil : PieceOK [] := by intro b h; simp at h

theorem pieceOK_of_ascii {s : Bytes} (h : ∀ b ∈ s, b.toNat < 0x80) : PieceOK s := by
  intro b hb
  have : b ∈ s := by
    cases s with
    | nil => simp at hb
    | cons x xs => simp at hb; simp [hb]
  have := h b this
  simp [isCont]; omega

theorem ascii_drop {s : Bytes} (h : ∀ b ∈ s, b.toNat < 0x80) (n : Nat) : ∀ b ∈ s.drop n, b.toNat < 0x80 :=
  fun b hb => h b (List.mem_of_mem_drop hb)

theorem ascii_take {s : Bytes} (h : ∀ b ∈ s, b.toNat < 0x80) (n : Nat) : ∀ b ∈ s.take n, b.toNat < 0x80 :=
  fun b hb => h b (List.mem_of_mem_take hb)

theorem pieceOK_substr {s : Bytes} (h : ∀ b ∈ s, b.toNat < 0x80) (a n : Nat) : PieceOK (substr s a n) :=
  pieceOK_of_ascii (ascii_take (ascii_drop h a) n)

theorem pieceOK_take {s : Bytes} (h : PieceOK s) (n : Nat) : PieceOK (s.take n) := by
  intro b hb
  cases s with
  | nil => simp at hb
  | cons x xs =>
    cases n with
    | zero => simp at hb
    | succ n => simp at hb; exact h b (by simp [hb])

end RimeModel.Session

namespace RimeModel.Session

theorem bnd_app_at_end (t : Bytes) {s : Bytes} (hs : PieceOK s) : Bnd (t ++ s) t.length := bnd_append (bnd_end t) hs
theorem bnd_app_new_end (t s : Bytes) : Bnd (t ++ s) (t.length + s.length) := by
  have := bnd_end (t ++ s); simpa using this

/-- what the clause assumes of a candidate: its text, its preedit and the part of the preedit after the
TAB caret placeholder each start a character (true of valid UTF-8, TAB being ASCII) -/
structure CandOK (cd : Cand) : Prop where
  text : PieceOK cd.text
  preedit : PieceOK cd.preedit
  afterTab : ∀ t, findTab cd.preedit = some t → PieceOK (cd.preedit.drop (t + 1))

def AccB (a : PreeditAcc) : Prop :=
  Bnd a.text a.selStart ∧ Bnd a.text a.selEnd ∧ ∀ p, a.caretPos = some p → Bnd a.text p

theorem accB_append {a : PreeditAcc} (h : AccB a) {s : Bytes} (hs : PieceOK s) (e : Nat) :
    AccB { a with text := a.text ++ s, stop := e } :=
  ⟨bnd_append h.1 hs, bnd_append h.2.1 hs, fun p hp => bnd_append (h.2.2 p hp) hs⟩

theorem accB_caret {a : PreeditAcc} (h : AccB a) : AccB { a with caretPos := some a.text.length } :=
  ⟨h.1, h.2.1, fun p hp => by simp only [Option.some.injEq] at hp; subst hp; exact bnd_end _⟩

theorem accB_selStart {a : PreeditAcc} (h : AccB a) : AccB { a with selStart := a.text.length } :=
  ⟨bnd_end _, h.2.1, h.2.2⟩

theorem accB_selEnd {a : PreeditAcc} (h : AccB a) : AccB { a with selEnd := a.text.length } :=
  ⟨h.1, bnd_end _, h.2.2⟩

theorem bnd_sel_tab (t pre : Bytes) (tab : Nat) (htab : tab < pre.length) : Bnd (t ++ pre.take tab) (t.length + tab) := by
  have := bnd_end (t ++ pre.take tab)
  simp only [List.length_append, List.length_take] at this
  rwa [Nat.min_eq_left (Nat.le_of_lt htab)] at this

theorem preeditStep_bnd (ci fi : Bytes) (cp : Nat) (a : PreeditAcc) (g : Seg) (isLast : Bool) (h : AccB a)
    (hci : ∀ b ∈ ci, b.toNat < 0x80) (hg : ∀ cd, g.selected = some cd → CandOK cd) :
    AccB (preeditStep ci fi cp a g isLast) := by
  have hc : AccB (if cp = a.stop then { a with caretPos := some a.text.length } else a) := by
    split
    · exact accB_caret h
    · exact h
  unfold preeditStep
  dsimp only
  generalize (if cp = a.stop then { a with caretPos := some a.text.length } else a) = b at hc
  obtain ⟨hb1, hb2, hb3⟩ := hc
  have hsub : ∀ x y, PieceOK (substr ci x y) := fun x y => pieceOK_substr hci x y
  cases isLast
  · simp only [Bool.not_false, if_true]
    split
    · rename_i cd hcd
      have hok := hg cd hcd
      exact ⟨bnd_append hb1 hok.text, bnd_append hb2 hok.text, fun p hp => bnd_append (hb3 p hp) hok.text⟩
    · split
      · exact ⟨hb1, hb2, hb3⟩
      · exact ⟨bnd_append hb1 (hsub _ _), bnd_append hb2 (hsub _ _), fun p hp => bnd_append (hb3 p hp) (hsub _ _)⟩
  · simp only [Bool.not_true, Bool.false_eq_true, if_false]
    split
    · rename_i cd hcd
      have hok := hg cd hcd
      split
      · split
        · rename_i tab htab
          have htl := findTab_lt htab
          have hpt : PieceOK (cd.preedit.take tab) := pieceOK_take hok.preedit tab
          have hpd : PieceOK (cd.preedit.drop (tab + 1)) := hok.afterTab tab htab
          split
          · refine ⟨bnd_append (bnd_app_at_end _ hpt) hpd, bnd_append (bnd_sel_tab _ _ _ htl) hpd, ?_⟩
            intro p hp
            simp only [Option.some.injEq] at hp
            subst hp
            exact bnd_append (bnd_sel_tab _ _ _ htl) hpd
          · exact ⟨bnd_app_at_end _ hpt, bnd_end _, fun p hp => bnd_append (hb3 p hp) hpt⟩
        · exact ⟨bnd_app_at_end _ hok.preedit, bnd_end _, fun p hp => bnd_append (hb3 p hp) hok.preedit⟩
      · exact ⟨bnd_app_at_end _ (hsub _ _), bnd_end _, fun p hp => bnd_append (hb3 p hp) (hsub _ _)⟩
    · exact ⟨bnd_app_at_end _ (hsub _ _), bnd_end _, fun p hp => bnd_append (hb3 p hp) (hsub _ _)⟩

end RimeModel.Session

namespace RimeModel.Session

theorem preeditLoop_bnd (ci fi : Bytes) (cp : Nat) (hci : ∀ b ∈ ci, b.toNat < 0x80) :
    ∀ (l : List Seg) (a : PreeditAcc), AccB a → (∀ g ∈ l, ∀ cd, g.selected = some cd → CandOK cd) →
      AccB (preeditLoop ci fi cp l a)
  | [], a, h, _ => by simpa [preeditLoop] using h
  | [g], a, h, hl => by
    simpa [preeditLoop] using preeditStep_bnd ci fi cp a g true h hci (hl g (by simp))
  | g :: g2 :: rest, a, h, hl => by
    rw [preeditLoop]
    · exact preeditLoop_bnd ci fi cp hci (g2 :: rest) _ (preeditStep_bnd ci fi cp a g false h hci (hl g (by simp)))
        (fun x hx => hl x (by simp [hx]))
    · simp

/-- inserting an OK piece at a boundary keeps a boundary `q` a boundary (shifted when it lies after the
insertion point) -/
theorem bnd_insert {t pr : Bytes} {cp q : Nat} (hcp : Bnd t cp) (hq : Bnd t q) (hpr : PieceOK pr) :
    Bnd (t.take cp ++ pr ++ t.drop cp) (if cp < q then q + pr.length else q) := by
  have hcple := hcp.le
  have hqle := hq.le
  have hlen : (t.take cp ++ pr ++ t.drop cp).length = t.length + pr.length := by
    simp only [List.length_append, List.length_take, List.length_drop]; omega
  have htake : (t.take cp).length = cp := by simp only [List.length_take]; omega
  by_cases hlt : cp < q
  · simp only [hlt, if_true]
    rcases hq with hq | ⟨hq, hqb⟩
    · left; rw [hlen, hq]
    · right
      refine ⟨by rw [hlen]; omega, ?_⟩
      intro b hb
      rw [List.getElem?_append_right (by simp only [List.length_append, htake]; omega)] at hb
      simp only [List.length_append, htake, List.getElem?_drop] at hb
      have : cp + (q + pr.length - (cp + pr.length)) = q := by omega
      rw [this] at hb
      exact hqb b hb
  · simp only [hlt, if_false]
    by_cases hqc : q < cp
    · right
      refine ⟨by rw [hlen]; omega, ?_⟩
      intro b hb
      rw [List.append_assoc, List.getElem?_append_left (by rw [htake]; exact hqc)] at hb
      rw [List.getElem?_take_of_lt hqc] at hb
      rcases hq with hq | ⟨_, hqb⟩
      · omega
      · exact hqb b hb
    · have heq : q = cp := by omega
      subst heq
      cases pr with
      | nil =>
        have : t.take q ++ [] ++ t.drop q = t := by simp
        rw [this]; exact hcp
      | cons x xs =>
        right
        refine ⟨by rw [hlen]; simp only [List.length_cons]; omega, ?_⟩
        intro b hb
        rw [List.append_assoc, List.getElem?_append_right (by rw [htake]; exact Nat.le_refl _)] at hb
        simp only [htake, Nat.sub_self, List.cons_append, List.getElem?_cons_zero, Option.some.injEq] at hb
        exact hpr b (by simp [hb])

theorem preeditFinish_bnd (a : PreeditAcc) (ci fi pr : Bytes) (h1 : AccB a)
    (hci : ∀ b ∈ ci, b.toNat < 0x80) (hfi : ∀ b ∈ fi, b.toNat < 0x80) (hpr : PieceOK pr) :
    let p := preeditFinish a ci fi pr
    Bnd p.text p.selStart ∧ Bnd p.text p.selEnd ∧ Bnd p.text p.caretPos := by
  unfold preeditFinish
  have h2 : AccB (if a.stop < ci.length then { a with text := a.text ++ ci.drop a.stop, stop := ci.length } else a) := by
    split
    · exact accB_append h1 (pieceOK_of_ascii (ascii_drop hci _)) _
    · exact h1
  dsimp only
  generalize (if a.stop < ci.length then { a with text := a.text ++ ci.drop a.stop, stop := ci.length } else a) = a2 at h2
  obtain ⟨b1, b2, b3⟩ := h2
  have hcur : Bnd a2.text a2.cursor := by
    unfold PreeditAcc.cursor
    cases hcp : a2.caretPos with
    | none => exact bnd_end _
    | some p => exact b3 p hcp
  generalize a2.cursor = cur at hcur ⊢
  have hrest : PieceOK (fi.drop a2.stop) := pieceOK_of_ascii (ascii_drop hfi _)
  have ht : ∀ q, Bnd a2.text q → Bnd (a2.fullText fi) q := by
    intro q hq
    unfold PreeditAcc.fullText
    split
    · exact bnd_append hq hrest
    · exact hq
  generalize a2.fullText fi = text at ht ⊢
  have c1 := ht _ b1
  have c2 := ht _ b2
  have c3 := ht _ hcur
  split
  · exact ⟨bnd_insert c3 c1 hpr, bnd_insert c3 c2 hpr, by
      have := bnd_insert c3 c3 hpr; simpa using this⟩
  · exact ⟨c1, c2, c3⟩

/-- **C02, UTF-8 clause**: sel_start, sel_end and the cursor of the preedit are character boundaries of the
preedit text, whenever the composition's input and the raw input are ASCII (all the key path can produce),
every selected candidate's text / preedit starts a character, and so does soft cursor + prompt -/
theorem getPreedit_boundaries (c : Comp) (fi : Bytes) (cp : Nat) (sc : Bytes)
    (hci : ∀ b ∈ c.input, b.toNat < 0x80) (hfi : ∀ b ∈ fi, b.toNat < 0x80)
    (hcand : ∀ g ∈ c.segs, ∀ cd, g.selected = some cd → CandOK cd)
    (hprompt : PieceOK (sc ++ c.prompt)) :
    let p := c.getPreedit fi cp sc
    Bnd p.text p.selStart ∧ Bnd p.text p.selEnd ∧ Bnd p.text p.caretPos := by
  have h0 : AccB ({} : PreeditAcc) := ⟨Or.inl rfl, Or.inl rfl, by intro p hp; simp at hp⟩
  exact preeditFinish_bnd _ c.input fi _ (preeditLoop_bnd c.input fi cp hci c.segs {} h0 hcand) hci hfi hprompt

end RimeModel.Session
