import RimeModel.Session.InvProc
/-! The client-visible well-formedness predicate (C02) and its derivation from the invariant. -/
namespace RimeModel.Session

/-- `WellFormed` for the numeric part of a preedit -/
def Preedit.WF (p : Preedit) : Prop :=
  p.selStart ≤ p.selEnd ∧ p.selEnd ≤ p.text.length ∧ p.caretPos ≤ p.text.length

def MenuView.WF (m : MenuView) : Prop :=
  m.cands ≠ [] ∧ m.highlighted < m.cands.length ∧ m.cands.length ≤ m.pageSize

/-- what C02 demands of the state a client can read after any call -/
structure View.WellFormed (v : View) : Prop where
  caret_le : v.caret ≤ v.input.length
  preedit_wf : ∀ p, v.preedit = some p → p.WF
  idle : v.composing = false → v.input = [] ∧ v.preedit = none ∧ v.menu = none
  menu_wf : ∀ m, v.menu = some m → m.WF

def AccOK (a : PreeditAcc) : Prop :=
  a.selStart ≤ a.selEnd ∧ a.selEnd ≤ a.text.length ∧ ∀ p, a.caretPos = some p → p ≤ a.text.length

theorem findTab_lt {b : Bytes} {t : Nat} (h : findTab b = some t) : t < b.length := by
  unfold findTab at h
  dsimp only at h
  split at h
  · simp only [Option.some.injEq] at h; omega
  · simp at h

theorem preeditStep_ok (ci fi : Bytes) (cp : Nat) (a : PreeditAcc) (g : Seg) (isLast : Bool) (h : AccOK a) :
    AccOK (preeditStep ci fi cp a g isLast) := by
  unfold preeditStep AccOK at *
  cases isLast <;> simp only [Bool.not_false, Bool.not_true, if_true, Bool.false_eq_true, if_false] <;>
  (repeat' split) <;> (try have := findTab_lt ‹_›) <;> simp_all <;>
  (try (refine ⟨?_, ?_⟩)) <;> (try (intro p hp; have := h.2.2 p hp)) <;> (try omega)

theorem preeditLoop_ok (ci fi : Bytes) (cp : Nat) : ∀ (l : List Seg) (a : PreeditAcc), AccOK a →
    AccOK (preeditLoop ci fi cp l a)
  | [], a, h => by simpa [preeditLoop] using h
  | [g], a, h => by simpa [preeditLoop] using preeditStep_ok ci fi cp a g true h
  | g :: g2 :: rest, a, h => by
    rw [preeditLoop]
    · exact preeditLoop_ok ci fi cp (g2 :: rest) _ (preeditStep_ok ci fi cp a g false h)
    · simp

/-- the numeric part of C02 holds for the preedit of *any* composition, by construction of GetPreedit -/
theorem getPreedit_wf (c : Comp) (fi : Bytes) (cp : Nat) (sc : Bytes) : (c.getPreedit fi cp sc).WF := by
  have h0 : AccOK ({} : PreeditAcc) := ⟨by simp, by simp, by intro p hp; simp at hp⟩
  have h1 := preeditLoop_ok c.input fi cp c.segs {} h0
  unfold Comp.getPreedit preeditFinish PreeditAcc.cursor PreeditAcc.fullText Preedit.WF
  generalize preeditLoop c.input fi cp c.segs {} = a at h1
  unfold AccOK at h1
  obtain ⟨h1, h2, h3⟩ := h1
  dsimp only
  (repeat' split) <;> simp_all <;>
  (try (refine ⟨?_, ?_, ?_⟩)) <;> (try (have := h3 _ ‹_›)) <;> (try omega)

end RimeModel.Session

namespace RimeModel.Session
variable {env : Env}

/-- the invariant implies the well-formedness of everything a client can read -/
theorem view_wf (hps : 0 < env.pageSize) {c : Ctx} (h : Inv c) : (view env c).WellFormed := by
  refine ⟨h.caret_le, ?_, ?_, ?_⟩
  · intro p hp
    unfold view at hp
    dsimp only at hp
    split at hp
    · simp only [Option.some.injEq] at hp
      subst hp
      exact getPreedit_wf _ _ _ _
    · simp at hp
  · intro hc
    have hc' : c.isComposing = false := hc
    have hin : c.input = [] := by
      unfold Ctx.isComposing at hc'
      simp only [Bool.or_eq_false_iff, decide_eq_false_iff_not, ne_eq, Decidable.not_not] at hc'
      exact hc'.1
    have hsegs : c.comp.segs = [] := by
      unfold Ctx.isComposing at hc'
      simp only [Bool.or_eq_false_iff, decide_eq_false_iff_not, ne_eq, Decidable.not_not] at hc'
      exact hc'.2
    refine ⟨hin, ?_, ?_⟩
    · unfold view; simp [hc']
    · unfold view
      have : c.hasMenu = false := by unfold Ctx.hasMenu; simp [hsegs]
      simp [this]
  · intro m hm
    unfold view at hm
    dsimp only at hm
    split at hm
    · split at hm
      · simp at hm
      · rename_i g hg
        split at hm
        · simp at hm
        · rename_i l hl
          split at hm
          · simp at hm
          · rename_i hstart
            simp only [Option.some.injEq] at hm
            subst hm
            have hlt : env.pageSize * (g.selIdx / env.pageSize) < l.length := by omega
            have hne : l ≠ [] := by intro he; subst he; simp at hlt
            have hsel : g.selIdx < l.length := h.segs_ok.getLast hg l hl hne
            have hmod : g.selIdx % env.pageSize < env.pageSize := Nat.mod_lt _ hps
            have hdm : env.pageSize * (g.selIdx / env.pageSize) + g.selIdx % env.pageSize = g.selIdx :=
              Nat.div_add_mod _ _
            refine ⟨?_, ?_, ?_⟩
            · intro he
              have := congrArg List.length he
              simp only [List.length_take, List.length_drop, List.length_nil] at this
              omega
            · simp only [List.length_take, List.length_drop]
              omega
            · simp only [List.length_take, List.length_drop]
              omega
    · simp at hm

/-- the highlighted entry of the reported page is the segment's selected candidate, i.e. the reported
page is the one that contains the highlighted candidate -/
theorem view_menu_highlight (hps : 0 < env.pageSize) {c : Ctx} {m : MenuView} (hm : (view env c).menu = some m) :
    ∃ g, c.comp.segs.getLast? = some g ∧ m.pageNo * m.pageSize + m.highlighted = g.selIdx ∧
      m.cands[m.highlighted]? = g.selected := by
  unfold view at hm
  dsimp only at hm
  split at hm
  · split at hm
    · simp at hm
    · rename_i g hg
      split at hm
      · simp at hm
      · rename_i l hl
        split at hm
        · simp at hm
        · simp only [Option.some.injEq] at hm
          subst hm
          refine ⟨g, hg, ?_, ?_⟩
          · dsimp only
            rw [Nat.mul_comm]
            exact Nat.div_add_mod _ _
          · dsimp only
            have hmod : g.selIdx % env.pageSize < env.pageSize := Nat.mod_lt _ hps
            unfold Seg.selected Seg.candAt
            rw [hl]
            simp only [List.getElem?_take, List.getElem?_drop, hmod, if_true]
            congr 1
            exact Nat.div_add_mod _ _
  · simp at hm

end RimeModel.Session
