#!/bin/bash
# usage: run_mutants.sh <scratch worktree of /repo>   — applies each diff, runs the quick check, reverts
WT="$1"; HERE="$(cd "$(dirname "${BASH_SOURCE[0]}")" && pwd)"
for d in "$HERE"/*.diff; do
  n=$(basename "$d" .diff)
  git -C "$WT" checkout -q -- src && git -C "$WT" apply "$d" || { echo "$n: patch does not apply"; continue; }
  out=$(VERIF_REPO="$WT" "$HERE/../../check" C09 --tier quick 2>&1); rc=$?
  echo "== $n rc=$rc"; echo "$out" | grep -E "^(# |VIOLATION|KNOWN|ERROR)" | cut -c1-260
  git -C "$WT" checkout -q -- src
done
