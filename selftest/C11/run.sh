#!/bin/bash
# Self-test of the C11 check: apply each mutant to a scratch worktree of /repo that has hooks/C11.patch applied,
# run the check against it, expect a VIOLATION line for m_* and none for h_* (harmless refactorings).
# The diffs are relative to the tree WITH hooks/C11.patch (some context lines are hook lines).  Never touches /repo.
#
# Results on 2026-09-26 (quick tier, seed 1, /repo HEAD b5cda48+ with hooks/C11.patch):
#   m_metaupdate_bypasses_batch  VIOLATION C11:unit:tick-without-entry + C11:kill:partial-commit  [new, b, space, tick 4, BackSpace] kill #30 (batch write): tick on disk, entry missing
#   m_commit_before_updates      VIOLATION C11:kill:partial-commit  [new, j, space] kill #31: tick written, entry not yet
#   m_abort_keeps_batch          VIOLATION C11:kill:not-a-commit-prefix (+ C11:damage, C11:trace:fetch, C11:trace:durable): an aborted commit resurfaces in the next batch
#   m_revert_ignores_window      VIOLATION C11:kill:partial-commit  [new, b, space, tick 4, BackSpace, o, space, Return] kill #29: a commit that had to be flushed was dropped
#   m_destructor_drops_pending   VIOLATION C11:kill:partial-commit  (corpus 03) commits pending at session destruction are lost by Close
#   m_entry_before_begin         VIOLATION C11:unit:tick-without-entry + C11:kill:partial-commit  [new, b, space, tick 4, BackSpace] kill #31: the tick of a commit is its own unit
#   m_fetch_ignores_pending      VIOLATION C11:trace:fetch no-failing-input-found (reads bypass the pending batch: model/code correspondence, atomicity unaffected)
#   h_begin_without_clear        no alarm
#   h_refactor_commit_pending    no alarm
# Without the hook (plain /repo + mutant): m_metaupdate_bypasses_batch -> C11:unit:tick-without-entry,
#   m_commit_before_updates -> C11:kill:not-a-commit-prefix; mutants that only drop or take back whole commits
#   (m_revert_ignores_window, m_destructor_drops_pending) need the hook.
set -u
HERE="$(cd "$(dirname "${BASH_SOURCE[0]}")" && pwd)"
ROOT="$(cd "$HERE/../.." && pwd)"
WT=/tmp/wt_C11_selftest
git -C /repo worktree add --force "$WT" HEAD > /dev/null 2>&1 || { echo "cannot create worktree"; exit 2; }
git -C "$WT" apply "$ROOT/hooks/C11.patch" || { echo "hook patch does not apply"; exit 2; }
for d in "$HERE"/*.diff; do
  n="$(basename "$d" .diff)"
  ( cd "$WT" && patch -p1 -s < "$d" ) || { echo "$n: mutant does not apply"; continue; }
  out="$(cd "$ROOT" && VERIF_REPO="$WT" ./check C11 --tier quick 2>&1 | grep -E '^(VIOLATION|KNOWN-FINDING|ERROR)' | head -3)"
  case "$n" in
    m_*) [ -n "$out" ] && echo "$n: caught: $out" || echo "$n: MISSED" ;;
    h_*) [ -z "$out" ] && echo "$n: quiet (ok)" || echo "$n: FALSE ALARM: $out" ;;
  esac
  ( cd "$WT" && patch -p1 -R -s < "$d" )
done
git -C /repo worktree remove --force "$WT"
rm -rf "$ROOT/.build/plain-$(echo -n "$WT" | md5sum | cut -c1-8)"* "$ROOT/.build/harness/plain-$(echo -n "$WT" | md5sum | cut -c1-8)"
