import sys, subprocess, re
which = sys.argv[1]
kt='/repo/src/rime/key_table.cc'; ke='/repo/src/rime/key_event.cc'
def sub(path, old, new, count=1):
    s=open(path).read()
    assert old in s, (path, old)
    s=s.replace(old,new,count)
    open(path,'w').write(s)
if which=='a1':   # swap the names of two keys in keys_by_name
    sub(kt, '{0x000041, 207},   {0x0000c6, 787}', '{0x000041, 787},   {0x0000c6, 207}')
elif which=='a2': # break one offset in keys_by_keyval (space -> "pace")
    sub(kt, '{0x000020, 0},     {0x000021, 6}', '{0x000020, 1},     {0x000021, 6}')
elif which=='a3': # drop the terminator row of keys_by_keyval
    sub(kt, '{0x00ffff, 14500}, {0xffffff, 14507}};', '{0x00ffff, 14500}};')
elif which=='b':  # Parse splits only on the last '+'
    sub(ke, "while ((found = repr.find('+', start)) != string::npos) {", "if ((found = repr.rfind('+')) != string::npos) {")
elif which=='c1': # repr emits modifiers in descending bit order
    sub(ke, '''        modifiers << modifier_name << '+';''', '''        modifiers.str(string(modifier_name) + "+" + modifiers.str()); modifiers.seekp(0, std::ios_base::end);''')
elif which=='c2': # drop a modifier name
    sub(kt, '"Hyper",                            // 27', 'NULL,                               // 27')
elif which=='c3': # rename a modifier so that it contains '+'
    sub(kt, '"Mod5",                             // 7', '"Mod+5",                            // 7')
elif which=='c4': # repr drops one modifier name (Control)
    sub(ke, '''      if (modifier_name) {''', '''      if (modifier_name && i != 2) {''')
elif which=='p1': # duplicate row appended to keys_by_name: behaviour unchanged, the permutation fact breaks
    sub(kt, '{0x0001bc, 1430},  {0x0001be, 1449}};', '{0x0001bc, 1430},  {0x0001be, 1449}, {0x000030, 140}};')
elif which=='k1': # harmless reformat of key_table.cc
    s=open(kt).read()
    s=re.sub(r'\{(0x[0-9a-f]{6}), (\d+)\},[ ]*', r'{ \1,\n      \2 }, /* row */ ', s)
    s=s.replace('static const key_entry keys_by_name[] = {', '// reformatted\nstatic const key_entry\n    keys_by_name [ ] =\n{')
    open(kt,'w').write(s)
elif which=='k2': # behaviour-preserving rewrite of Parse's loop
    sub(ke, '''    while ((found = repr.find('+', start)) != string::npos) {
      token = repr.substr(start, found - start);''', '''    for (;;) {
      found = repr.find('+', start);
      if (found == string::npos)
        break;
      token = string(repr.begin() + start, repr.begin() + found);''')
else:
    raise SystemExit('unknown mutant')
print(subprocess.run(['git','-C','/repo','diff','--stat'],capture_output=True,text=True).stdout)
