#!/bin/bash
# Offline setup after a fresh restore: build the Lean library + drivers and the librime flavours
# the checks use (they rebuild incrementally from /repo's working tree on every run anyway).
set -uo pipefail
HERE="$(cd "$(dirname "${BASH_SOURCE[0]}")" && pwd)"
cd "$HERE"
mkdir -p .build .work evidence
# translators first (Gen/*.lean are regenerated from /repo)
for g in gen/run_all.sh; do [ -x "$g" ] && "$g" || true; done
( cd lean && lake build 2>&1 | grep -v '^trace' | tail -5 ) &
LP=$!
./tools/build_librime.sh san   > .build/setup_san.log 2>&1 &
SP=$!
wait $SP || { echo "san build failed"; tail -30 .build/setup_san.log; }
for f in $(cat tools/flavours.txt 2>/dev/null); do
  [ "$f" = san ] && continue
  ./tools/build_librime.sh "$f" > .build/setup_$f.log 2>&1 || { echo "$f build failed"; tail -30 .build/setup_$f.log; }
done
wait $LP
( cd lean && lake build $(grep -o 'name = "driver_[a-z0-9_]*"' lakefile.toml | sed 's/name = //; s/"//g') 2>&1 | grep -v '^trace' | tail -3 )
echo "setup done"
