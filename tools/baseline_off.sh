#!/bin/bash
# Run the repository's pinned test suite with the hook guard OFF (no -DRIME_VERIF), from the working
# tree, in a scratch build directory outside /repo and /verif; removed afterwards.
set -euo pipefail
REPO="${VERIF_REPO:-/repo}"
B="$(mktemp -d /var/tmp/rime_baseline_off.XXXXXX)"
trap 'rm -rf "$B"' EXIT
cmake -G Ninja -S "$REPO" -B "$B" -DCMAKE_BUILD_TYPE=RelWithDebInfo -DBUILD_TEST=ON -DCMAKE_CXX_FLAGS="-Wno-error" > "$B.log" 2>&1 || { cat "$B.log"; rm -f "$B.log"; exit 1; }
rm -f "$B.log"
cmake --build "$B" 2>&1 | tail -3
ctest --test-dir "$B" -j8 --timeout 900 --output-junit "$B/junit.xml" 2>&1 | tail -5
( cd "$B/test" && ./rime_test 2>&1 | tail -3 )
