#!/bin/bash
# Build librime from /repo's CURRENT WORKING TREE, out of tree, into /verif/.build/<flavour>.
# Flavours: san (ASan+UBSan), tsan, plain, cov (gcov instrumentation, used to measure what the correspondence runs execute).  All define RIME_VERIF (hooks on).
# Usage: build_librime.sh <flavour> [repo_dir]
set -euo pipefail
FLAV="${1:?flavour}"
HERE="$(cd "$(dirname "${BASH_SOURCE[0]}")/.." && pwd)"
REPO="${2:-${VERIF_REPO:-/repo}}"
# builds of a scratch copy of the repository (VERIF_REPO != /repo) get their own directory
SUF=""
if [ "$REPO" != "/repo" ]; then SUF="-$(echo -n "$REPO" | md5sum | cut -c1-8)"; fi
# VERIF_COV_TAG gives concurrent coverage measurements their own instrumented build (the counters live in the build directory)
if [ "$FLAV" = cov ] && [ -n "${VERIF_COV_TAG:-}" ]; then SUF="$SUF-$VERIF_COV_TAG"; fi
BDIR="$HERE/.build/$FLAV$SUF"
mkdir -p "$HERE/.build"
case "$FLAV" in
  # NDEBUG in every flavour, as in the repository's own RelWithDebInfo build: DLOG statements are compiled out.  Some of
  # them have side effects (Composition::GetDebugText fetches the first candidate of every segment), so a build that
  # evaluates them behaves differently from the one users and the test suite run — it hid a seeded change to
  # Context::HasMenu (DESIGN.md 8.5).
  san)   FLAGS="-O1 -g -DNDEBUG -fno-omit-frame-pointer -fsanitize=address,undefined -fno-sanitize-recover=all -DRIME_VERIF -Wno-error" ; LFLAGS="-fsanitize=address,undefined" ;;
  tsan)  FLAGS="-O1 -g -DNDEBUG -fno-omit-frame-pointer -fsanitize=thread -DRIME_VERIF -Wno-error" ; LFLAGS="-fsanitize=thread" ;;
  plain) FLAGS="-O1 -g -DNDEBUG -DRIME_VERIF -Wno-error" ; LFLAGS="" ;;
  cov)   FLAGS="-O0 -g -DNDEBUG --coverage -DRIME_VERIF -Wno-error" ; LFLAGS="--coverage" ;;
  *) echo "unknown flavour $FLAV" >&2; exit 2 ;;
esac
exec 9>"$HERE/.build/$FLAV$SUF.lock"
flock 9
# (a build directory configured with other flags is configured again)
if [ ! -f "$BDIR/build.ninja" ] || ! grep -q "CMAKE_HOME_DIRECTORY:INTERNAL=$REPO\$" "$BDIR/CMakeCache.txt" 2>/dev/null \
   || ! grep -qF "CMAKE_CXX_FLAGS:STRING=$FLAGS" "$BDIR/CMakeCache.txt" 2>/dev/null; then
  rm -rf "$BDIR"
  cmake -G Ninja -S "$REPO" -B "$BDIR" -DCMAKE_BUILD_TYPE=Debug -DBUILD_TEST=OFF -DBUILD_SAMPLE=OFF \
    -DCMAKE_CXX_FLAGS="$FLAGS" -DCMAKE_C_FLAGS="$FLAGS" \
    -DCMAKE_SHARED_LINKER_FLAGS="$LFLAGS" -DCMAKE_EXE_LINKER_FLAGS="$LFLAGS" > "$BDIR.cmake.log" 2>&1 || { cat "$BDIR.cmake.log"; exit 3; }
fi
ninja -C "$BDIR" > "$BDIR.ninja.log" 2>&1 || { tail -50 "$BDIR.ninja.log"; exit 4; }
echo "$BDIR"
