#!/usr/bin/env python3
"""Which lines of the code a property is anchored in does its check actually execute?

A change in a line that no run of the check ever executes cannot be noticed by the correspondence or by the monitors
(only by a translator or by a proof over regenerated data).  This tool runs one whole check against the gcov-instrumented
build of /repo's working tree (VERIF_FLAVOUR=cov makes vlib substitute the `cov` flavour for `san` / `plain`; the evidence
of such a run is diverted to .work/) and lists, per anchored file and function, the lines never executed and the lines
with a branch outcome never taken.  It is a measurement that steers the generators, never evidence.

usage: tools/check_coverage.py <id> [quick|thorough] [extra source files ...]      (prints a JSON report, writes
       .work/coverage_<id>.json)
Processes killed by the kill-point runs (C11, C13) leave no counters: their coverage is understated."""
import os, sys, json, glob, re, subprocess
ROOT = os.path.dirname(os.path.dirname(os.path.abspath(__file__)))
sys.path.insert(0, ROOT)
os.environ["VERIF_FLAVOUR"] = "cov"
import vlib
from tools.model_coverage import _ranges, reset_counters


def collect_files(bdir, rels):
    res = {}
    for rel in rels:
        base = os.path.basename(rel)
        if not base.endswith((".cc", ".c", ".cpp")):
            continue          # headers are reported inside the translation units that include them
        gcda = [g for g in glob.glob(os.path.join(bdir, "**", base + ".gcda"), recursive=True)]
        if not gcda:
            res[rel] = {"error": "no counters (never loaded)"}
            continue
        p = subprocess.run(["gcov", "-j", "-b", "-t", gcda[0]], cwd=os.path.dirname(gcda[0]), capture_output=True, text=True)
        try:
            data = json.loads(p.stdout)
        except ValueError:
            res[rel] = {"error": "gcov output not parsed"}
            continue
        for fobj in data.get("files", []):
            fn = fobj["file"]
            if "/src/" not in fn and not fn.startswith("src/"):
                continue
            frel = fn[fn.index("src/"):] if "src/" in fn else fn
            if frel != rel and not (frel.endswith(".h") and frel in rels):
                continue
            names = {f["name"]: re.sub(r"\(.*", "", f.get("demangled_name", f["name"])) for f in fobj["functions"]}
            by_fn = {}
            for l in fobj["lines"]:
                d = by_fn.setdefault(names.get(l.get("function_name"), "?"), {})
                e = d.setdefault(l["line_number"], {"count": 0, "br": {}})
                e["count"] += l["count"]
                for k, b in enumerate(l.get("branches", [])):
                    if b.get("throw"):
                        continue
                    e["br"][k] = e["br"].get(k, 0) + b["count"]
            out = {}
            tl = th = 0
            for fnm, d in sorted(by_fn.items()):
                never = [ln for ln, e in d.items() if e["count"] == 0]
                unt = [ln for ln, e in d.items() if e["count"] > 0 and any(c == 0 for c in e["br"].values())]
                tl += len(d)
                th += len(d) - len(never)
                if never or unt:
                    out[fnm] = {"never": _ranges(never), "untaken_branch": _ranges(unt),
                                "called": any(e["count"] > 0 for e in d.values())}
            prev = res.get(frel)
            if prev and "error" not in prev and prev["lines_executed"] >= th:
                continue
            res[frel] = {"lines": tl, "lines_executed": th, "functions": out}
    return res


def main():
    pid = sys.argv[1]
    tier = sys.argv[2] if len(sys.argv) > 2 else "quick"
    extra = sys.argv[3:]
    prop = next(json.loads(l) for l in open(os.path.join(ROOT, "properties.jsonl")) if json.loads(l)["id"] == pid)
    rels = list(prop["anchors"]["files"]) + extra
    bdir = vlib.build_librime("cov")
    reset_counters(bdir)
    env = dict(os.environ, VERIF_FLAVOUR="cov")
    p = subprocess.run([os.path.join(ROOT, "check"), pid, "--tier", tier], env=env, capture_output=True, text=True)
    rep = {"property": pid, "tier": tier, "check_rc": p.returncode,
           "check_lines": [l for l in p.stdout.splitlines() if l.startswith(("VIOLATION", "KNOWN"))][:10],
           "files": collect_files(bdir, rels)}
    tot_l = sum(v.get("lines", 0) for v in rep["files"].values())
    tot_h = sum(v.get("lines_executed", 0) for v in rep["files"].values())
    rep["total"] = {"lines": tot_l, "lines_executed": tot_h}
    os.makedirs(os.path.join(ROOT, ".work"), exist_ok=True)
    with open(os.path.join(ROOT, ".work", "coverage_%s.json" % pid), "w") as f:
        json.dump(rep, f, indent=1)
    # compact text report
    print("%s %s rc=%d  lines executed %d / %d" % (pid, tier, p.returncode, tot_h, tot_l))
    for rel, v in rep["files"].items():
        if "error" in v:
            print("  %s: %s" % (rel, v["error"]))
            continue
        print("  %s: %d / %d" % (rel, v["lines_executed"], v["lines"]))
        for fnm, d in v["functions"].items():
            if d["never"]:
                print("      %s%s: never %s" % (fnm, "" if d["called"] else " [NEVER CALLED]", ",".join(d["never"])))
            if d["untaken_branch"]:
                print("      %s: one-sided branch at %s" % (fnm, ",".join(d["untaken_branch"])))


if __name__ == "__main__":
    main()
