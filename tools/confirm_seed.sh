#!/bin/bash
# Confirm a seeded change in the seeder's own scratch worktree (outside /repo and /verif):
# with the patch: library builds, the 87 tests pass, the demonstration FAILS; without it: the demonstration PASSES.
# usage: tools/confirm_seed.sh <worktree> <n>      prints one JSON line
W="$1"; N="$2"; D="$W/seed_out/$N"
cd "$W" || exit 2
git checkout -q -- src 2>/dev/null
build_demo() {
  if [ -f "$D/demo.sh" ]; then return 0; fi
  g++ -std=c++17 -DBOOST_DLL_USE_STD_FS -I"$W/src" -I"$W/_build/src" -I"$W/include" "$D"/demo*.cc -o "$D/demo" \
      -L"$W/_build/lib" -Wl,-rpath,"$W/_build/lib" -lrime -lglog -lpthread > "$D/demo_build.log" 2>&1
}
ARGS="$(python3 - "$D/meta.json" <<'PY'
import json, re, sys
try:
    h = json.load(open(sys.argv[1])).get("how_run", "")
    h = re.sub(r"\s+#.*$", "", h.strip())
    m = re.search(r"(?:\./|/)demo((?: +[^&|;<>]+)?) *$", h)
    a = (m.group(1) if m else "").strip()
    a = re.sub(r"\$W/seed_out/\d+/", "./", a)
    print(a)
except Exception:
    print("")
PY
)"
run_demo() {
  if [ -f "$D/demo.sh" ]; then ( cd "$D" && W="$W" timeout 900 bash ./demo.sh > "$D/$1" 2>&1 ); else ( cd "$D" && eval timeout 900 ./demo $ARGS > "$D/$1" 2>&1 ); fi
  echo $?
}
git apply "$D/patch.diff" || { echo '{"applies": false}'; exit 1; }
cmake --build _build > "$D/build_with.log" 2>&1; B1=$?
T1=$(cd _build/test && ./rime_test 2>&1 | grep -c "PASSED  \] 87 tests")
build_demo; DB1=$?
R1=$(run_demo out_with.txt)
git checkout -q -- src
cmake --build _build > "$D/build_without.log" 2>&1; B2=$?
build_demo; DB2=$?
R2=$(run_demo out_without.txt)
echo "{\"applies\": true, \"builds_with\": $((B1==0)), \"tests_pass_with\": $T1, \"demo_builds\": $((DB1==0 && DB2==0)), \"demo_rc_with\": $R1, \"demo_rc_without\": $R2}"
