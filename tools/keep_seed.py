#!/usr/bin/env python3
"""Archive a confirmed seeded change under /verif/seeded/<id>_<n>/ (patch.diff, the demonstration, meta.json).
usage: keep_seed.py <worktree> <n> <property id> <confirm-json> <checks-run> <detected: yes|no|partial> <by: free text>"""
import sys, os, json, shutil
w, n, pid, confirm, ran, detected, by = sys.argv[1:8]
src = os.path.join(w, "seed_out", n)
dst = os.path.join(os.path.dirname(os.path.dirname(os.path.abspath(__file__))), "seeded", os.environ.get("KEEP_AS") or "%s_%s" % (pid, n))
shutil.rmtree(dst, ignore_errors=True)
os.makedirs(dst)
for f in os.listdir(src):
    p = os.path.join(src, f)
    if f in ("demo", "demo_build.log", "build_with.log", "build_without.log") or f.endswith(".o"):
        continue
    if os.path.isdir(p):
        if f in ("demo_user", "user", "build", "log") or sum(len(x[2]) for x in os.walk(p)) > 40:
            continue
        shutil.copytree(p, os.path.join(dst, f), ignore=shutil.ignore_patterns("build", "log", "*.bin", "*.userdb*", "*.log"))
    elif os.path.getsize(p) < 200000:
        shutil.copy(p, dst)
meta = {}
try:
    meta = json.load(open(os.path.join(src, "meta.json")))
except Exception:
    pass
meta.update({"property": pid, "confirmed_by_lead": json.loads(confirm),
             "confirmation": "tools/confirm_seed.sh in the seeder's scratch worktree: patch applies, library builds, 87 tests pass with it, demonstration fails with it and passes without it",
             "checks_run": ran, "detected": detected, "detected_by": by})
json.dump(meta, open(os.path.join(dst, "meta.json"), "w"), indent=1, ensure_ascii=False)
print(dst, sorted(os.listdir(dst)))
