#!/usr/bin/env python3
"""Record the content hashes of /repo's sources at the commit the checks were validated on (tools/source_baseline.json).
`./check` compares the working tree with this record: when a source file differs, the quick tier widens its search
(further seeds) — see vlib.changed_sources and DESIGN.md 8.8.  Re-run after every `fix:` / hook commit in /repo."""
import os, sys, json, hashlib, subprocess
ROOT = os.path.dirname(os.path.dirname(os.path.abspath(__file__)))
REPO = sys.argv[1] if len(sys.argv) > 1 else "/repo"
files = {}
for top in ("src", "include", "plugins", "tools", "data/minimal", "cmake"):
    for d, _, fs in os.walk(os.path.join(REPO, top)):
        for f in fs:
            p = os.path.join(d, f)
            rel = os.path.relpath(p, REPO)
            with open(p, "rb") as fh:
                files[rel] = hashlib.sha256(fh.read()).hexdigest()[:20]
for f in ("CMakeLists.txt",):
    with open(os.path.join(REPO, f), "rb") as fh:
        files[f] = hashlib.sha256(fh.read()).hexdigest()[:20]
head = subprocess.run(["git", "-C", REPO, "rev-parse", "HEAD"], capture_output=True, text=True).stdout.strip()
json.dump({"repo_head": head, "files": files}, open(os.path.join(ROOT, "tools", "source_baseline.json"), "w"), indent=0, sort_keys=True)
print(len(files), "files at", head)
