#!/usr/bin/env python3
"""Measure which lines / branches of the C++ code that the session model ports are executed by the correspondence runs.

The session model (lean/RimeModel/Session) is written by hand; what ties it to the code is the differential run.  This tool
says how much of the ported code those runs reach: it builds librime with gcov instrumentation (flavour `cov`), runs the same
scripts through the session harness, and reports per file / per function the lines and branch outcomes never executed.
Usable from a check (coverage(...)) or by hand:  tools/model_coverage.py [n_histories] [n_ops]   (prints JSON)"""
import os, sys, json, glob, re, shutil, subprocess, random
sys.path.insert(0, os.path.dirname(os.path.dirname(os.path.abspath(__file__))))
import vlib

# the C++ the session model is a port of (file -> regex of demangled function names that are modelled; None = whole file)
MODELLED = {
    "src/rime/context.cc": None,
    "src/rime/segmentation.cc": None,
    "src/rime/composition.cc": r"Composition::(GetPreedit|GetPrompt|GetCommitText|HasFinishedComposition)",
    "src/rime/menu.cc": None,
    "src/rime/engine.cc": r"ConcreteEngine::(ProcessKey|OnContextUpdate|Compose|CalculateSegmentation|TranslateSegments|OnCommit|OnSelect|"
                          r"CommitText|FormatText|OnOptionUpdate|InitializeOptions)",
    "src/rime/gear/abc_segmentor.cc": r"AbcSegmentor::Proceed",
    "src/rime/gear/fallback_segmentor.cc": r"FallbackSegmentor::Proceed",
    "src/rime/gear/speller.cc": None,
    "src/rime/gear/selector.cc": None,
    "src/rime/gear/navigator.cc": None,
    "src/rime/gear/editor.cc": None,
    "src/rime/gear/punctuator.cc": None,      # digit-separator functions are outside the model (configured off)
    "src/rime/gear/shape.cc": None,
    "src/rime/gear/ascii_composer.cc": None,
    "src/rime/gear/key_binder.cc": None,      # select_schema (`select:` bindings) is outside the model
    "src/rime/switches.cc": r"Switches::(FindOptionFromConfigItem|FindOption|OptionByName|ByIndex|Cycle|Reset|FindRadioGroupOption)",
    "src/rime/service.cc": r"(Session::(ProcessKey|CommitComposition|ClearComposition|OnCommit|ResetCommitText|Activate)|"
                           r"Service::(CreateSession|GetSession|DestroySession|CleanupAllSessions))",
}


def _ranges(nums):
    out, start, prev = [], None, None
    for n in sorted(nums):
        if start is None:
            start = prev = n
        elif n == prev + 1:
            prev = n
        else:
            out.append("%d" % start if start == prev else "%d-%d" % (start, prev))
            start = prev = n
    if start is not None:
        out.append("%d" % start if start == prev else "%d-%d" % (start, prev))
    return out


def reset_counters(bdir):
    for f in glob.glob(os.path.join(bdir, "**", "*.gcda"), recursive=True):
        os.remove(f)


def collect(bdir):
    """-> {file: {...}} for the MODELLED files, from the .gcda files the runs left in bdir"""
    res = {}
    for rel, fn_re in MODELLED.items():
        base = os.path.basename(rel)
        gcda = glob.glob(os.path.join(bdir, "**", base + ".gcda"), recursive=True)
        if not gcda:
            res[rel] = {"error": "no counters (file not built or never loaded)"}
            continue
        p = subprocess.run(["gcov", "-j", "-b", "-t", gcda[0]], cwd=os.path.dirname(gcda[0]), capture_output=True, text=True)
        try:
            data = json.loads(p.stdout)
        except ValueError:
            res[rel] = {"error": "gcov output not parsed: " + p.stderr[-300:]}
            continue
        fobj = next((f for f in data.get("files", []) if f["file"].endswith(rel)), None)
        if fobj is None:
            res[rel] = {"error": "file not in gcov output"}
            continue
        rx = re.compile(fn_re) if fn_re else None
        keep = {}
        for f in fobj["functions"]:
            dn = f.get("demangled_name", f["name"])
            if rx is None or rx.search(dn):
                keep[f["name"]] = f
        lines = [l for l in fobj["lines"] if l.get("function_name") in keep]
        # one source line can belong to several instantiations: merge by line number
        by_line = {}
        for l in lines:
            e = by_line.setdefault(l["line_number"], {"count": 0, "br": {}})
            e["count"] += l["count"]
            for k, b in enumerate(l.get("branches", [])):
                if b.get("throw"):
                    continue          # exception edges of calls: not decisions of the ported logic
                e["br"][k] = e["br"].get(k, 0) + b["count"]
        n_lines = len(by_line)
        hit = sum(1 for e in by_line.values() if e["count"] > 0)
        brs = [(ln, k, cnt) for ln, e in by_line.items() for k, cnt in e["br"].items()]
        never_fn = sorted({re.sub(r"\(.*", "", f.get("demangled_name", f["name"])) for f in keep.values() if f["execution_count"] == 0})
        res[rel] = {
            "functions": len(keep), "functions_never_called": never_fn,
            "lines": n_lines, "lines_executed": hit,
            "branch_outcomes": len(brs), "branch_outcomes_taken": sum(1 for b in brs if b[2] > 0),
            "lines_never_executed": _ranges([ln for ln, e in by_line.items() if e["count"] == 0]),
            "lines_with_untaken_branch": _ranges({ln for ln, k, cnt in brs if cnt == 0 and by_line[ln]["count"] > 0}),
        }
    tot = {k: sum(v.get(k, 0) for v in res.values() if "error" not in v) for k in
           ("lines", "lines_executed", "branch_outcomes", "branch_outcomes_taken")}
    return {"files": res, "total": tot,
            "note": "gcov (-O0) counters of the functions the session model ports, accumulated over the correspondence scripts of this run; "
                    "branch outcomes exclude exception edges; DLOG/LOG lines count as code"}


def coverage(work, scripts, ws_maker):
    """scripts: [text]; ws_maker(dir) -> workspace directory.  Runs them through the gcov-instrumented build."""
    from checks import session_common as sc
    exe, bdir = vlib.build_harness("session_harness", "cov", ["session_harness.cc"])
    reset_counters(bdir)
    ws = ws_maker(os.path.join(work, "ws_cov"))
    rcs = []
    for i, text in enumerate(scripts):
        p = os.path.join(work, "cov%d.script" % i)
        with open(p, "w") as f:
            f.write(text)
        rc, out = vlib.sh([exe, ws, p], env={"GLOG_minloglevel": "3"}, timeout=3600)
        rcs.append(rc)
    rep = collect(bdir)
    rep["scripts"] = len(scripts)
    rep["script_exit_codes"] = sorted(set(rcs))
    return rep


if __name__ == "__main__":
    from checks import session_common as sc
    n_hist = int(sys.argv[1]) if len(sys.argv) > 1 else 48
    n_ops = int(sys.argv[2]) if len(sys.argv) > 2 else 120
    c = vlib.Check("COV", "quick", int(os.environ.get("VERIF_SEED", "1")))
    try:
        hs, rows_for = sc.standard_histories(c, n_hist, n_ops)
        scripts = sc.scripts_for(hs, rows_for)
        rep = coverage(c.work, scripts, lambda d: sc.make_workspace(d, list(sc.SCHEMAS)))
        print(json.dumps(rep, indent=1))
    finally:
        c.cleanup()
