#!/bin/bash
# Run checks against a seeded change without touching /repo: apply <patch> to the lead's scratch worktree,
# run ./check <id> --tier quick for each id with VERIF_REPO pointing at it, restore the worktree.
# usage: tools/run_seeded.sh <patch.diff> <id> [<id>...]
set -u
HERE="$(cd "$(dirname "${BASH_SOURCE[0]}")/.." && pwd)"
WT="${WT:-/tmp/wt_lead}"
PATCH="$1"; shift
[ -d "$WT" ] || git -C /repo worktree add -q "$WT" HEAD
git -C "$WT" checkout -q -- . ; git -C "$WT" checkout -q --detach "$(git -C /repo rev-parse HEAD)"
git -C "$WT" apply "$PATCH" || { echo "patch does not apply"; exit 2; }
for id in "$@"; do
  echo "=== $id on $(basename "$(dirname "$PATCH")")/$(basename "$PATCH")"
  ( cd "$HERE" && VERIF_REPO="$WT" timeout 3000 ./check "$id" --tier "${TIER:-quick}" 2>&1 | grep -E "^VIOLATION|^KNOWN|^# |^ERROR" | cut -c1-300 | head -12; echo "rc=${PIPESTATUS[0]}" )
done
git -C "$WT" checkout -q -- .
# the translators wrote Gen/*.lean from the scratch repository: regenerate them from /repo
( cd "$HERE" && ./gen/run_all.sh > /dev/null 2>&1 )
