#!/usr/bin/env python3
"""Shared machinery for the librime Lean-4 verification checks.

Every check is `./check <id> --tier quick|thorough`; it runs stages
  G  regenerate translator outputs from /repo's working tree
  P  lake build of the property module + axiom audit + forbidden-token scan
  B  build librime flavour(s) from the working tree + the harness
  K  correspondence: harness (real code) vs Lean driver (model) on the same op lines
  O  direct property monitor on the implementation's outputs
and then decides (see DESIGN.md section 1.4).
"""
import os, sys, json, subprocess, time, hashlib, re, fcntl, shutil, random, glob

ROOT = os.path.dirname(os.path.abspath(__file__))
REPO = os.environ.get("VERIF_REPO", "/repo")
LEAN = os.path.join(ROOT, "lean")
BUILD = os.path.join(ROOT, ".build")
WORK = os.path.join(ROOT, ".work")
# evidence of runs against a scratch copy of the repository (VERIF_REPO set) must never overwrite the real evidence
# VERIF_FLAVOUR=cov runs a whole check against the gcov-instrumented build (tools/check_coverage.py): a measurement, never evidence
FLAVOUR_OVERRIDE = os.environ.get("VERIF_FLAVOUR", "")
EVID = (os.path.join(ROOT, "evidence") if REPO == "/repo" and not FLAVOUR_OVERRIDE
        else os.path.join(ROOT, ".work", "evidence_scratch"))
REPLAYS = os.path.join(ROOT, "replays")
CORPUS = os.path.join(ROOT, "corpus")
KNOWN = os.path.join(ROOT, "known_findings.json")

ALLOWED_AXIOMS = {"propext", "Classical.choice", "Quot.sound"}
FORBIDDEN = [r"\bsorry\b", r"\badmit\b", r"^\s*axiom\s", r"\bnative_decide\b", r"\bbv_decide\b",
             r"\bimplemented_by\b", r"\bunsafe\s", r"maxHeartbeats\s+0\b", r"\bextern\b"]


class BuildError(Exception):
    pass


def sh(cmd, cwd=None, env=None, timeout=None, input=None):
    e = dict(os.environ)
    if env:
        e.update(env)
    p = subprocess.run(cmd, cwd=cwd, env=e, stdout=subprocess.PIPE, stderr=subprocess.STDOUT,
                       timeout=timeout, input=input, text=True, errors="replace")
    return p.returncode, p.stdout


def source_hash(paths):
    h = hashlib.sha256()
    for p in sorted(paths):
        fp = p if os.path.isabs(p) else os.path.join(REPO, p)
        try:
            with open(fp, "rb") as f:
                h.update(p.encode() + b"\0" + f.read())
        except OSError:
            h.update(p.encode() + b"\0<missing>")
    return h.hexdigest()[:16]


def changed_sources():
    """Source files of REPO whose content differs from tools/source_baseline.json (the tree every check was validated on);
    [] when the record is missing.  Used by ./check to widen the quick tier's search on a changed tree."""
    try:
        base = json.load(open(os.path.join(ROOT, "tools", "source_baseline.json")))["files"]
    except (OSError, ValueError, KeyError):
        return []
    out = []
    seen = set()
    for top in ("src", "include", "plugins", "tools", "data/minimal", "cmake"):
        for d, _, fs in os.walk(os.path.join(REPO, top)):
            for f in fs:
                p = os.path.join(d, f)
                rel = os.path.relpath(p, REPO)
                seen.add(rel)
                try:
                    with open(p, "rb") as fh:
                        h = hashlib.sha256(fh.read()).hexdigest()[:20]
                except OSError:
                    h = None
                if base.get(rel) != h:
                    out.append(rel)
    out += [r for r in base if r not in seen and "/" in r]
    return sorted(out)


# ---------------------------------------------------------------- librime builds
def build_librime(flavour):
    if FLAVOUR_OVERRIDE and flavour in ("san", "plain"):
        flavour = FLAVOUR_OVERRIDE
    os.makedirs(BUILD, exist_ok=True)
    rc, out = sh([os.path.join(ROOT, "tools", "build_librime.sh"), flavour, REPO], timeout=3600)
    if rc != 0:
        raise BuildError("librime (%s) does not build from %s:\n%s" % (flavour, REPO, out[-4000:]))
    return out.strip().splitlines()[-1]


FLAV_FLAGS = {
    # NDEBUG like the library (tools/build_librime.sh): inline code of the headers must be the same on both sides
    "san": ["-O1", "-g", "-DNDEBUG", "-fno-omit-frame-pointer", "-fsanitize=address,undefined", "-fno-sanitize-recover=all"],
    "tsan": ["-O1", "-g", "-DNDEBUG", "-fno-omit-frame-pointer", "-fsanitize=thread"],
    "plain": ["-O1", "-g", "-DNDEBUG"],
    "cov": ["-O0", "-g", "-DNDEBUG"],          # the library is instrumented (gcov), the harness need not be
}


def build_harness(name, flavour, srcs, extra=None, libs=None):
    """Compile /verif/harness/<srcs> against librime built from the working tree."""
    if FLAVOUR_OVERRIDE and flavour in ("san", "plain"):
        flavour = FLAVOUR_OVERRIDE
    bdir = build_librime(flavour)
    odir = os.path.join(BUILD, "harness", os.path.basename(bdir))
    os.makedirs(odir, exist_ok=True)
    out = os.path.join(odir, name)
    dep = out + ".d"
    srcs = [s if os.path.isabs(s) else os.path.join(ROOT, "harness", s) for s in srcs]
    lock = open(out + ".lock", "w")
    fcntl.flock(lock, fcntl.LOCK_EX)
    try:
        need = not os.path.exists(out) or not os.path.exists(dep)
        if not need:
            t = os.path.getmtime(out)
            deps = re.sub(r"\\\n", " ", open(dep).read()).split(":", 1)[-1].split()
            deps += [os.path.join(bdir, "lib", "librime.so")] + srcs
            for d in deps:
                try:
                    if os.path.getmtime(d) > t:
                        need = True
                        break
                except OSError:
                    need = True
                    break
        if need:
            cmd = (["g++", "-std=c++17", "-DRIME_VERIF", "-DBOOST_DLL_USE_STD_FS", "-Wno-deprecated-declarations"]
                   + FLAV_FLAGS[flavour]
                   + ["-I" + os.path.join(REPO, "src"), "-I" + os.path.join(bdir, "src"),
                      "-I" + os.path.join(REPO, "include"), "-I" + os.path.join(ROOT, "harness"),
                      "-MMD", "-MF", dep, "-o", out] + srcs + (extra or [])
                   + ["-L" + os.path.join(bdir, "lib"), "-Wl,-rpath," + os.path.join(bdir, "lib"),
                      "-lrime", "-lglog", "-lpthread"] + (libs or []))
            rc, o = sh(cmd, timeout=1200)
            if rc != 0:
                raise BuildError("harness %s does not compile against the working tree:\n%s" % (name, o[-6000:]))
    finally:
        fcntl.flock(lock, fcntl.LOCK_UN)
        lock.close()
    return out, bdir


SAN_ENV = {
    "ASAN_OPTIONS": "detect_leaks=0:abort_on_error=0:exitcode=99:detect_stack_use_after_return=0",
    "UBSAN_OPTIONS": "print_stacktrace=1:halt_on_error=1:exitcode=98",
    "TSAN_OPTIONS": "exitcode=97:halt_on_error=0",
    "GLOG_minloglevel": "3", "GLOG_logtostderr": "0",
}


# ---------------------------------------------------------------- Lean side
def lake_build(targets, timeout=3600):
    os.makedirs(BUILD, exist_ok=True)
    lock = open(os.path.join(BUILD, "lake.lock"), "w")
    fcntl.flock(lock, fcntl.LOCK_EX)
    try:
        rc, out = sh(["lake", "build"] + list(targets), cwd=LEAN, timeout=timeout)
    finally:
        fcntl.flock(lock, fcntl.LOCK_UN)
        lock.close()
    return rc, out


def driver_path(name):
    return os.path.join(LEAN, ".lake", "build", "bin", name)


def strip_lean_comments(src):
    out = []
    i, n, depth = 0, len(src), 0
    while i < n:
        if src.startswith("/-", i):
            depth += 1
            i += 2
            continue
        if depth and src.startswith("-/", i):
            depth -= 1
            i += 2
            continue
        if depth:
            if src[i] == "\n":
                out.append("\n")
            i += 1
            continue
        if src.startswith("--", i):
            while i < n and src[i] != "\n":
                i += 1
            continue
        if src[i] == '"':  # string literal
            j = i + 1
            while j < n and src[j] != '"':
                j += 2 if src[j] == "\\" else 1
            out.append('""')
            i = j + 1
            continue
        out.append(src[i])
        i += 1
    return "".join(out)


def module_file(mod):
    return os.path.join(LEAN, *mod.split(".")) + ".lean"


def import_closure(mod):
    seen, todo = [], [mod]
    while todo:
        m = todo.pop()
        if m in seen:
            continue
        f = module_file(m)
        if not os.path.exists(f):
            continue
        seen.append(m)
        for line in open(f):
            mm = re.match(r"\s*(?:public\s+)?import\s+([\w.]+)", line)
            if mm and (mm.group(1).startswith("RimeModel") or mm.group(1).startswith("Driver")):
                todo.append(mm.group(1))
    return seen


def theorem_names(mod):
    """Names of the theorems declared in a Props module (namespace-qualified)."""
    src = strip_lean_comments(open(module_file(mod)).read())
    ns, names = [], []
    for line in src.splitlines():
        m = re.match(r"\s*namespace\s+([\w.]+)", line)
        if m:
            ns.append(m.group(1))
            continue
        m = re.match(r"\s*end\s+([\w.]+)\s*$", line)
        if m and ns and ns[-1] == m.group(1):
            ns.pop()
            continue
        m = re.match(r"\s*(?:@\[[^\]]*\]\s*)?(?:private\s+|protected\s+)?theorem\s+([\w.']+)", line)
        if m:
            names.append(".".join(ns + [m.group(1)]))
    return names


def lean_audit(pid, mod=None, extra_mods=()):
    """Build the property module, check axioms of every theorem in it, scan for forbidden tokens.
    Returns dict(ok, obligations, discharged, failures[list of (name, why)], log)."""
    mod = mod or "RimeModel.Props." + pid
    res = {"ok": False, "obligations": 0, "discharged": 0, "failures": [], "log": "", "theorems": [],
           "axioms": {}, "module": mod}
    if not os.path.exists(module_file(mod)):
        res["failures"].append((mod, "property module missing"))
        return res
    names = theorem_names(mod)
    for em in extra_mods:
        names += theorem_names(em)
    res["theorems"] = names
    res["obligations"] = len(names)
    rc, out = lake_build([mod] + list(extra_mods))
    res["log"] = out[-8000:]
    if rc != 0:
        # which theorems failed?  Lean reports file:line; map lines to theorem names
        bad = set()
        for m in re.finditer(r"error: ([^\s:]+\.lean):(\d+):\d+", out):
            bad.add((m.group(1), int(m.group(2))))
        res["failures"].append((mod, "lake build failed: " + "; ".join(
            l for l in out.splitlines() if "error" in l)[:1500]))
        res["failed_locations"] = sorted(bad)
        return res
    # forbidden tokens
    for m in import_closure(mod) + [x for e in extra_mods for x in import_closure(e)]:
        src = strip_lean_comments(open(module_file(m)).read())
        for pat in FORBIDDEN:
            mm = re.search(pat, src, re.M)
            if mm:
                res["failures"].append((m, "forbidden token %r" % mm.group(0)))
    # axioms
    os.makedirs(WORK, exist_ok=True)
    af = os.path.join(WORK, "audit_%s_%d.lean" % (pid, os.getpid()))
    with open(af, "w") as f:
        f.write("import %s\n" % mod)
        for em in extra_mods:
            f.write("import %s\n" % em)
        for n in names:
            f.write("#print axioms %s\n" % n)
    rc, out = sh(["lake", "env", "lean", af], cwd=LEAN, timeout=1200)
    os.unlink(af)
    if rc != 0:
        res["failures"].append((mod, "axiom audit failed to run: " + out[-1500:]))
        return res
    cur = None
    axs = {}
    text = out.replace("\n  ", " ")
    for line in text.splitlines():
        m = re.match(r"'([^']+)' depends on axioms: \[(.*)\]", line)
        if m:
            axs[m.group(1)] = [a.strip() for a in m.group(2).split(",") if a.strip()]
            continue
        m = re.match(r"'([^']+)' does not depend on any axioms", line)
        if m:
            axs[m.group(1)] = []
    res["axioms"] = axs
    for n in names:
        if n not in axs:
            res["failures"].append((n, "no axiom report"))
            continue
        extra = [a for a in axs[n] if a not in ALLOWED_AXIOMS]
        if extra:
            res["failures"].append((n, "depends on non-standard axioms %s" % extra))
        else:
            res["discharged"] += 1
    res["ok"] = not res["failures"]
    return res


def leanchecker(mod):
    rc, out = sh(["lake", "env", "leanchecker", mod], cwd=LEAN, timeout=3600)
    return rc == 0, out[-2000:]


def run_driver(name, input_text, timeout=3600, args=()):
    exe = driver_path(name)
    p = subprocess.run([exe] + list(args), input=input_text, stdout=subprocess.PIPE, stderr=subprocess.PIPE,
                       text=True, timeout=timeout)
    if p.returncode != 0:
        raise BuildError("Lean driver %s failed (rc=%d): %s" % (name, p.returncode, p.stderr[-2000:]))
    return p.stdout


# ---------------------------------------------------------------- known findings, verdicts
def load_known():
    try:
        return json.load(open(KNOWN))["findings"]
    except OSError:
        return []


def known_status(pid, signature):
    for f in load_known():
        if f.get("property") == pid and f.get("signature") == signature:
            return f
    return None


class Check:
    def __init__(self, pid, tier, seed):
        self.pid, self.tier, self.seed = pid, tier, seed
        self.t0 = time.time()
        self.rng = random.Random(seed)
        self.violations = []      # (signature, replay_path, no_input)
        self.known_hits = {}      # signature -> what
        self.cov = {}
        self.assumptions = []
        self.level = "proof"
        self.work = os.path.join(WORK, "%s_%d" % (pid, os.getpid()))
        os.makedirs(self.work, exist_ok=True)

    def cleanup(self):
        shutil.rmtree(self.work, ignore_errors=True)

    def replay_file(self, obj):
        d = os.path.join(REPLAYS, self.pid)
        os.makedirs(d, exist_ok=True)
        obj = dict(obj)
        obj.setdefault("property", self.pid)
        obj.setdefault("seed", self.seed)
        obj.setdefault("tier", self.tier)
        s = json.dumps(obj, indent=1, sort_keys=True, default=str)
        p = os.path.join(d, hashlib.sha256(s.encode()).hexdigest()[:12] + ".json")
        with open(p, "w") as f:
            f.write(s)
        return p

    def report(self, signature, what, replay_obj, no_input=False):
        """A property violation (or broken obligation) with canonical signature."""
        k = known_status(self.pid, signature)
        if k and k.get("status") == "open":
            if signature not in self.known_hits:
                self.known_hits[signature] = k.get("what", what)
            return
        if any(v[0] == signature for v in self.violations):
            return
        replay_obj = dict(replay_obj)
        replay_obj["signature"] = signature
        replay_obj["what"] = what
        if no_input:
            replay_obj["no_failing_input_found"] = True
        self.violations.append((signature, self.replay_file(replay_obj), no_input, what))

    def finish(self, extra_cov=None):
        cov = dict(self.cov)
        if extra_cov:
            cov.update(extra_cov)
        ev = {"property_id": self.pid, "tier": self.tier, "seed": self.seed, "level": self.level,
              "coverage": cov, "assumptions": self.assumptions, "wall_s": round(time.time() - self.t0, 2),
              "violations": len(self.violations),
              "known_findings_hit": sorted(self.known_hits)}
        os.makedirs(EVID, exist_ok=True)
        with open(os.path.join(EVID, self.pid + ".json"), "w") as f:
            json.dump(ev, f, indent=1, sort_keys=True, default=str)
        for sig, what in sorted(self.known_hits.items()):
            print("KNOWN-FINDING: property=%s %s [%s]" % (self.pid, what, sig))
        for sig, path, no_input, what in self.violations:
            print("# %s: %s" % (sig, what))
            print("VIOLATION property=%s replay=%s%s" % (self.pid, path, " no-failing-input-found" if no_input else ""))
        self.cleanup()
        sys.stdout.flush()
        return 1 if self.violations else 0


def proof_cov(audit, checker_cmd, trusted):
    return {"obligations": audit["obligations"], "discharged": audit["discharged"],
            "checker_cmd": checker_cmd, "trusted_base": trusted,
            "theorems": audit["theorems"],
            "axioms_used": sorted({a for v in audit["axioms"].values() for a in v})}


STD_TRUSTED = ["Lean 4.33.0 kernel", "axioms: propext, Classical.choice, Quot.sound only (audited per theorem by #print axioms)",
               "Lean compiler for the driver executable (outputs are compared, never believed)",
               "g++ 12 / sanitizer runtimes", "the /verif translators and harnesses"]
